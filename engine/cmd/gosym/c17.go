package main

// C17 (names): the real token table — obtained by running the repo's parser.tokenTypes()
// in the engine — is translated regex by regex into SMT-LIB regular languages, and z3's
// string solver is asked for an identifier of the documented shape that the table's
// first-match rule does not lex as one name.

import (
	"bytes"
	"fmt"
	"os"
	"os/exec"
	"path/filepath"
	"regexp/syntax"
	"strconv"
	"strings"
	"time"
)

type extraResult struct {
	violations []string
	known      []string
	broken     []string
	evidence   map[string]interface{}
	validated  int
	queries    int
	unsat      int
}

var reservedWords = []string{"if", "else", "return", "raise", "yield", "defer"}

func smtStr(s string) string {
	var sb strings.Builder
	sb.WriteByte('"')
	for _, r := range s {
		switch {
		case r == '"':
			sb.WriteString(`""`)
		case r < 32 || r > 126 || r == '\\':
			fmt.Fprintf(&sb, `\u{%x}`, r)
		default:
			sb.WriteRune(r)
		}
	}
	sb.WriteByte('"')
	return sb.String()
}

const reWordChar = `(re.union (re.range "a" "z") (re.range "A" "Z") (re.range "0" "9") (str.to_re "_"))`

// reToSMT translates a regexp/syntax tree into an SMT-LIB RegLan term for the language of
// strings the pattern can match as a PREFIX-ANCHORED match (without the trailing Σ*).
// A trailing \b is returned separately (wb = true): the match must be followed by the
// end of the input or a non-word character.
func reToSMT(re *syntax.Regexp) (term string, wb bool, err error) {
	switch re.Op {
	case syntax.OpEmptyMatch, syntax.OpBeginText, syntax.OpBeginLine:
		return `(str.to_re "")`, false, nil
	case syntax.OpLiteral:
		return "(str.to_re " + smtStr(string(re.Rune)) + ")", false, nil
	case syntax.OpCharClass:
		var parts []string
		for i := 0; i+1 < len(re.Rune); i += 2 {
			lo, hi := re.Rune[i], re.Rune[i+1]
			if hi > 126 {
				hi = 126 // the alphabet of these checks is printable ASCII + tab/newline/CR
			}
			if lo > hi {
				continue
			}
			if lo == hi {
				parts = append(parts, "(str.to_re "+smtStr(string(lo))+")")
			} else {
				parts = append(parts, fmt.Sprintf("(re.range %s %s)", smtStr(string(lo)), smtStr(string(hi))))
			}
		}
		switch len(parts) {
		case 0:
			return "re.none", false, nil
		case 1:
			return parts[0], false, nil
		}
		return "(re.union " + strings.Join(parts, " ") + ")", false, nil
	case syntax.OpAnyCharNotNL:
		return `(re.diff re.allchar (str.to_re "\u{a}"))`, false, nil
	case syntax.OpAnyChar:
		return "re.allchar", false, nil
	case syntax.OpCapture:
		return reToSMT(re.Sub[0])
	case syntax.OpStar, syntax.OpPlus, syntax.OpQuest:
		t, w, e := reToSMT(re.Sub[0])
		if e != nil || w {
			return "", false, fmt.Errorf("word boundary inside a repetition")
		}
		op := map[syntax.Op]string{syntax.OpStar: "re.*", syntax.OpPlus: "re.+", syntax.OpQuest: "re.opt"}[re.Op]
		return "(" + op + " " + t + ")", false, nil
	case syntax.OpConcat:
		var parts []string
		for i, s := range re.Sub {
			if s.Op == syntax.OpWordBoundary {
				if i != len(re.Sub)-1 {
					return "", false, fmt.Errorf("word boundary not at the end of the pattern")
				}
				wb = true
				continue
			}
			t, w, e := reToSMT(s)
			if e != nil {
				return "", false, e
			}
			if w {
				if i != len(re.Sub)-1 {
					return "", false, fmt.Errorf("word boundary not at the end of the pattern")
				}
				wb = true
			}
			parts = append(parts, t)
		}
		if len(parts) == 1 {
			return parts[0], wb, nil
		}
		return "(re.++ " + strings.Join(parts, " ") + ")", wb, nil
	case syntax.OpAlternate:
		var parts []string
		for _, s := range re.Sub {
			t, w, e := reToSMT(s)
			if e != nil || w {
				return "", false, fmt.Errorf("word boundary inside an alternation")
			}
			parts = append(parts, t)
		}
		return "(re.union " + strings.Join(parts, " ") + ")", false, nil
	case syntax.OpRepeat:
		t, w, e := reToSMT(re.Sub[0])
		if e != nil || w {
			return "", false, fmt.Errorf("unsupported repeat")
		}
		if re.Max < 0 {
			return fmt.Sprintf("(re.++ ((_ re.loop %d %d) %s) (re.* %s))", re.Min, re.Min, t, t), false, nil
		}
		return fmt.Sprintf("((_ re.loop %d %d) %s)", re.Min, re.Max, t), false, nil
	}
	return "", false, fmt.Errorf("unsupported regexp operator %v in %s", re.Op, re.String())
}

func z3Strings(q string, timeoutS int) (string, string) {
	cmd := exec.Command("z3", "-in", fmt.Sprintf("-T:%d", timeoutS))
	cmd.Stdin = strings.NewReader(q)
	out, _ := cmd.Output()
	txt := strings.TrimSpace(string(out))
	if strings.HasPrefix(txt, "unsat") {
		return "unsat", "" // (the get-value that follows has no model: expected)
	}
	if strings.Contains(txt, "(error") {
		return "error: " + firstLineOf(txt), ""
	}
	switch {
	case strings.HasPrefix(txt, "sat"):
		return "sat", strings.TrimSpace(strings.TrimPrefix(txt, "sat"))
	}
	return "unknown", ""
}

func modelString(model, name string) string {
	// ((s "iffy")) style get-value output
	i := strings.Index(model, "("+name+" \"")
	if i < 0 {
		return ""
	}
	rest := model[i+len(name)+3:]
	var sb strings.Builder
	for k := 0; k < len(rest); k++ {
		if rest[k] == '"' {
			if k+1 < len(rest) && rest[k+1] == '"' {
				sb.WriteByte('"')
				k++
				continue
			}
			break
		}
		sb.WriteByte(rest[k])
	}
	s := sb.String()
	// decode \u{..}
	for {
		j := strings.Index(s, `\u{`)
		if j < 0 {
			break
		}
		e := strings.Index(s[j:], "}")
		n, _ := strconv.ParseInt(s[j+3:j+e], 16, 32)
		s = s[:j] + string(rune(n)) + s[j+e+1:]
	}
	return s
}

func runC17Names(tier string) extraResult {
	res := extraResult{evidence: map[string]interface{}{}}
	rows := tokenTable()
	type tok struct {
		id      int
		pattern string
		term    string
		wb      bool
		err     string
	}
	var toks []tok
	identIdx, privIdx := -1, -1
	for _, r := range rows {
		parts := strings.SplitN(r, "\t", 2)
		id, _ := strconv.Atoi(parts[0])
		t := tok{id: id, pattern: parts[1]}
		re, err := syntax.Parse(parts[1], syntax.Perl)
		if err != nil {
			t.err = err.Error()
		} else {
			re = re.Simplify()
			term, wb, e := reToSMT(re)
			if e != nil {
				t.err = e.Error()
			}
			t.term, t.wb = term, wb
		}
		toks = append(toks, t)
	}
	// IDENT / PRIVATE_IDENT: the first two patterns that are exactly an identifier shape
	for i, t := range toks {
		if t.pattern == `^(?:[a-zA-Z][a-zA-Z0-9_]*[!?]?)` {
			identIdx = i
		}
		if strings.HasPrefix(t.pattern, `^(?:_+(`) && privIdx < 0 && identIdx >= 0 {
			privIdx = i
		}
	}
	if identIdx < 0 || privIdx < 0 {
		res.broken = append(res.broken, "C17 names: IDENT / PRIVATE_IDENT patterns not found in the token table (table shape changed)")
		return res
	}
	maxLen := 8
	if tier == "thorough" {
		maxLen = 12
	}
	// common preamble: s is a documented name that is not a reserved word; rest is empty or
	// starts with a character that cannot continue a name
	var pre strings.Builder
	pre.WriteString("(declare-const s String)\n(declare-const rest String)\n")
	fmt.Fprintf(&pre, "(assert (str.in_re s (re.++ (re.union (re.range \"a\" \"z\") (re.range \"A\" \"Z\") (str.to_re \"_\")) (re.* %s) (re.opt (re.union (str.to_re \"!\") (str.to_re \"?\"))))))\n", reWordChar)
	fmt.Fprintf(&pre, "(assert (<= (str.len s) %d))\n(assert (<= (str.len rest) 2))\n", maxLen)
	for _, w := range reservedWords {
		fmt.Fprintf(&pre, "(assert (not (= s %s)))\n", smtStr(w))
	}
	nonName := `(re.diff (re.range " " "~") (re.union ` + reWordChar + ` (str.to_re "!") (str.to_re "?")))`
	fmt.Fprintf(&pre, "(assert (or (= rest \"\") (str.in_re rest (re.++ (re.union %s (str.to_re \"\\u{a}\") (str.to_re \"\\u{9}\")) re.all))))\n", nonName)
	// the method-literal openers m{ m%{ m<{ are tokens of their own by design
	pre.WriteString("(assert (not (and (= s \"m\") (or (str.prefixof \"{\" rest) (str.prefixof \"%{\" rest) (str.prefixof \"<{\" rest)))))\n")
	prefixMatch := func(t tok) string {
		// buffer = s ++ rest is in L(T)·Σ*, honouring a trailing \b
		if t.wb {
			nonWord := "(re.diff re.allchar " + reWordChar + ")"
			return fmt.Sprintf("(or (str.in_re (str.++ s rest) %s) (str.in_re (str.++ s rest) (re.++ %s %s re.all)))", t.term, t.term, nonWord)
		}
		return fmt.Sprintf("(str.in_re (str.++ s rest) (re.++ %s re.all))", t.term)
	}
	var samples []interface{}
	t0 := time.Now()
	seenViol := map[string]bool{}
	report := func(what, s, rest string) {
		if seenViol[what] {
			return
		}
		seenViol[what] = true
		ok, out := c17ReplayName(s, rest)
		if !ok {
			res.broken = append(res.broken, fmt.Sprintf("ENGINE-MISMATCH: C17 name counterexample %q does not reproduce with the real lexer: %s (%s)", s+rest, what, firstLineOf(out)))
			return
		}
		res.validated++
		dir := filepath.Join(verifDir, "replays", "C17")
		os.MkdirAll(dir, 0o755)
		p := filepath.Join(dir, fmt.Sprintf("%s-name-%d.json", tier, len(res.violations)))
		os.WriteFile(p, []byte(fmt.Sprintf("{\"kind\": \"name\", \"property\": \"C17\", \"name\": %q, \"rest\": %q, \"what\": %q}\n", s, rest, what)), 0o644)
		res.violations = append(res.violations, fmt.Sprintf("VIOLATION property=C17 replay=%s (name %q followed by %q: %s; real lexer: %s)", p, s, rest, what, firstLineOf(out)))
	}
	// Q1: no token type listed before the winning identifier type matches a prefix of the buffer
	for k, t := range toks {
		if k >= privIdx {
			break
		}
		if t.err != "" {
			res.broken = append(res.broken, fmt.Sprintf("C17 names: token pattern %q cannot be translated: %s", t.pattern, t.err))
			continue
		}
		if k == identIdx {
			continue
		}
		q := pre.String()
		if k > identIdx {
			// between IDENT and PRIVATE_IDENT only names starting with _ are at stake
			q += "(assert (str.prefixof \"_\" s))\n"
		}
		q += "(assert " + prefixMatch(t) + ")\n(check-sat)\n(get-value (s rest))\n"
		r, model := z3Strings(q, 60)
		res.queries++
		switch r {
		case "unsat":
			res.unsat++
		case "sat":
			s, rest := modelString(model, "s"), modelString(model, "rest")
			report(fmt.Sprintf("token type %d (%s), listed before the identifier types, matches a prefix", t.id, t.pattern), s, rest)
		default:
			res.broken = append(res.broken, fmt.Sprintf("C17 names: solver answered %s for token %d", r, t.id))
		}
		if len(samples) < 5 {
			samples = append(samples, map[string]interface{}{"query": "some documented name is captured by an earlier token type", "token_id": t.id, "pattern": t.pattern, "verdict": r})
		}
	}
	// Q2: IDENT or PRIVATE_IDENT matches the whole name.
	// Known-finding regions are solver constraints on s: a counterexample outside every
	// known region is a violation; inside one it is reported as KNOWN-FINDING.
	regions := map[string]string{
		// underscores followed by something other than a letter (_1, _?, __9!)
		"C17/underscore-then-nonletter": `(str.in_re s (re.++ (re.+ (str.to_re "_")) (re.union (re.range "0" "9") (str.to_re "!") (str.to_re "?")) re.all))`,
	}
	knownWhat := map[string]string{}
	for _, k := range readKnown() {
		if k.Property == "C17" && k.Status == "known" {
			knownWhat[k.Region] = k.What
		}
	}
	whole := fmt.Sprintf("(assert (not (str.in_re s %s)))\n(assert (not (str.in_re s %s)))\n", toks[identIdx].term, toks[privIdx].term)
	q := pre.String() + whole
	for name, c := range regions {
		if _, isKnown := knownWhat[name]; isKnown {
			q += "(assert (not " + c + "))\n"
		}
	}
	q += "(check-sat)\n(get-value (s rest))\n"
	r, model := z3Strings(q, 60)
	res.queries++
	switch r {
	case "unsat":
		res.unsat++
	case "sat":
		report("neither identifier token type matches the whole name", modelString(model, "s"), "")
	default:
		res.broken = append(res.broken, "C17 names: solver answered "+r+" for the whole-name query")
	}
	for name, c := range regions {
		what, isKnown := knownWhat[name]
		if !isKnown {
			continue
		}
		rk, mk := z3Strings(pre.String()+whole+"(assert "+c+")\n(check-sat)\n(get-value (s rest))\n", 60)
		res.queries++
		if rk == "sat" {
			s := modelString(mk, "s")
			if ok, out := c17ReplayName(s, ""); ok {
				res.validated++
				res.known = append(res.known, fmt.Sprintf("KNOWN-FINDING: property=C17 %s [%s] e.g. name %q -> %s", what, name, s, firstLineOf(out)))
			} else {
				res.broken = append(res.broken, fmt.Sprintf("ENGINE-MISMATCH: known-region name %q works with the real lexer", s))
			}
		} else if rk == "unsat" {
			res.unsat++
		}
	}
	samples = append(samples, map[string]interface{}{"query": "some documented name is not matched entirely by IDENT or PRIVATE_IDENT", "verdict": r})
	res.evidence = map[string]interface{}{
		"names_token_table_rows": len(toks), "names_queries": res.queries, "names_unsat": res.unsat, "names_solver_s": time.Since(t0).Seconds(),
		"names_bound":   fmt.Sprintf("names of length <= %d over [a-zA-Z0-9_!?], followed by nothing or by up to 2 characters the first of which cannot continue a name; alphabet printable ASCII + tab / newline", maxLen),
		"names_samples": samples,
		"names_assumptions": []string{
			"simplexer tries the token types in table order and takes the first whose anchored regular expression matches a prefix of the buffer (read in third_party/simplexer/lexer.go: Peek / RegexpTokenType.FindToken)",
			"the table is obtained by executing the repo's own parser.tokenTypes() in the engine; each Go regexp is parsed with regexp/syntax and translated to an SMT-LIB regular language (a trailing \\b is modelled as 'followed by the end of input or a non-word character')",
			"reserved words: if, else, return, raise, yield, defer; the method-literal openers m{ m%{ m<{ are tokens by design",
		},
	}
	return res
}

// c17ReplayName: does the real interpreter fail to treat the name as one variable?
func c17ReplayName(name, rest string) (bool, string) {
	tmp, _ := os.MkdirTemp("", "verif-c17-")
	defer os.RemoveAll(tmp)
	bin := filepath.Join(tmp, "pangaea")
	build := exec.Command("go", "build", "-o", bin, ".")
	build.Dir = repoDir
	build.Env = append(os.Environ(), "GOFLAGS=-mod=mod", "GOPROXY=off", "GOSUMDB=off", "GOTOOLCHAIN=local")
	if out, err := build.CombinedOutput(); err != nil {
		return false, "build failed: " + string(out)
	}
	src := name + " := 3\n" + name + ".p\n"
	cmd := exec.Command(bin, "-e", src)
	var out bytes.Buffer
	cmd.Stdout = &out
	cmd.Stderr = &out
	cmd.Run()
	ok := strings.TrimSpace(out.String()) == "3"
	return !ok, strings.TrimSpace(out.String())
}
