package main

// C20 — concurrent evaluations do not race on interpreter-wide tables.
//
// The sequential engine cannot see schedules, so this property has its own encoder in
// the same binary: from the SSA of the repo it extracts every access to a package-level
// map (Lookup / MapUpdate / range / len / delete through a load of the global) together
// with the sync.(RW)Mutex operations around it (callees inlined), and asks the solver
// for a two-thread schedule in which two conflicting accesses are adjacent.

import (
	"bytes"
	"encoding/json"
	"fmt"
	"go/types"
	"os"
	"os/exec"
	"path/filepath"
	"sort"
	"strconv"
	"strings"
	"time"

	"golang.org/x/tools/go/ssa"
)

type c20Event struct {
	Kind  string // lock rlock unlock runlock read write
	Obj   string // mutex or map global name
	Where string
}

type c20Summary struct {
	fn     *ssa.Function
	events []c20Event
}

func isRepoFn(f *ssa.Function) bool {
	p := f
	for p.Parent() != nil {
		p = p.Parent()
	}
	if p.Pkg == nil {
		return false
	}
	path := p.Pkg.Pkg.Path()
	return strings.HasPrefix(path, modPath) && !strings.Contains(path, "zzverif")
}

func globalOf(v ssa.Value) *ssa.Global {
	switch v := v.(type) {
	case *ssa.Global:
		return v
	case *ssa.UnOp:
		return globalOf(v.X)
	case *ssa.FieldAddr:
		return globalOf(v.X)
	}
	return nil
}

// events of one function, callees inlined up to depth; instructions in block order
// (a linear over-approximation of the paths: enough for lock scopes that are
// lock...defer unlock or lock...unlock within one function).
func c20Events(f *ssa.Function, depth int, seen map[*ssa.Function]bool) []c20Event {
	if f == nil || f.Blocks == nil || depth < 0 || seen[f] {
		return nil
	}
	seen[f] = true
	defer delete(seen, f)
	var evs, deferred []c20Event
	pos := func(in ssa.Instruction) string {
		p := f.Prog.Fset.Position(in.Pos())
		return fmt.Sprintf("%s:%d", strings.TrimPrefix(p.Filename, repoDir+"/"), p.Line)
	}
	isMapGlobal := func(v ssa.Value) *ssa.Global {
		g := globalOf(v)
		if g == nil {
			return nil
		}
		if _, ok := g.Type().(*types.Pointer).Elem().Underlying().(*types.Map); ok {
			return g
		}
		return nil
	}
	callEvents := func(c *ssa.CallCommon, in ssa.Instruction) []c20Event {
		callee := c.StaticCallee()
		if callee == nil {
			return nil
		}
		name := callee.String()
		mode := map[string]string{
			"(*sync.RWMutex).Lock": "lock", "(*sync.RWMutex).Unlock": "unlock", "(*sync.RWMutex).RLock": "rlock", "(*sync.RWMutex).RUnlock": "runlock",
			"(*sync.Mutex).Lock": "lock", "(*sync.Mutex).Unlock": "unlock",
		}[name]
		if mode != "" {
			mu := "?"
			if len(c.Args) > 0 {
				if g := globalOf(c.Args[0]); g != nil {
					mu = g.String()
				}
			}
			return []c20Event{{mode, mu, pos(in)}}
		}
		if isRepoFn(callee) {
			return c20Events(callee, depth-1, seen)
		}
		return nil
	}
	for _, b := range f.Blocks {
		for _, in := range b.Instrs {
			switch in := in.(type) {
			case *ssa.Lookup:
				if g := isMapGlobal(in.X); g != nil {
					evs = append(evs, c20Event{"read", g.String(), pos(in)})
				}
			case *ssa.MapUpdate:
				if g := isMapGlobal(in.Map); g != nil {
					evs = append(evs, c20Event{"write", g.String(), pos(in)})
				}
			case *ssa.Range:
				if g := isMapGlobal(in.X); g != nil {
					evs = append(evs, c20Event{"read", g.String(), pos(in)})
				}
			case *ssa.Call:
				if bi, ok := in.Call.Value.(*ssa.Builtin); ok {
					if (bi.Name() == "len" || bi.Name() == "delete") && len(in.Call.Args) > 0 {
						if g := isMapGlobal(in.Call.Args[0]); g != nil {
							k := "read"
							if bi.Name() == "delete" {
								k = "write"
							}
							evs = append(evs, c20Event{k, g.String(), pos(in)})
						}
					}
					continue
				}
				evs = append(evs, callEvents(&in.Call, in)...)
			case *ssa.Defer:
				deferred = append(callEvents(&in.Call, in), deferred...)
			case *ssa.Go:
				// the spawned function runs concurrently: analysed as its own entry
			}
		}
	}
	return append(evs, deferred...)
}

func runC20(tier string) int {
	t0 := time.Now()
	l := load()
	// every repo function that (transitively, depth 3) touches a package-level map is an entry
	type entry struct {
		name string
		evs  []c20Event
		init bool
	}
	var entries []entry
	var all []*ssa.Function
	for _, p := range l.prog.AllPackages() {
		if !strings.HasPrefix(p.Pkg.Path(), modPath) || strings.Contains(p.Pkg.Path(), "zzverif") {
			continue
		}
		for _, m := range p.Members {
			switch m := m.(type) {
			case *ssa.Function:
				all = append(all, m)
				all = append(all, m.AnonFuncs...)
			case *ssa.Type:
				ms := l.prog.MethodSets.MethodSet(types.NewPointer(m.Type()))
				for i := 0; i < ms.Len(); i++ {
					if fn := l.prog.MethodValue(ms.At(i)); fn != nil && fn.Synthetic == "" {
						all = append(all, fn)
					}
				}
			}
		}
	}
	encoded := map[string]bool{}
	depth := 3
	if tier == "thorough" {
		depth = 5
	}
	// accessors: functions whose OWN body touches a package-level map
	isAccessor := map[*ssa.Function]bool{}
	for _, f := range all {
		for _, e := range c20Events(f, 0, map[*ssa.Function]bool{}) {
			if e.Kind == "read" || e.Kind == "write" {
				isAccessor[f] = true
			}
		}
	}
	// an accessor is an entry if it is exported, or if some repo function calls it at a
	// point where that caller holds no mutex (otherwise its callers' locks protect it and
	// the lock-holding caller is the entry instead)
	exposed := map[*ssa.Function]bool{}
	lockedCallers := map[*ssa.Function]bool{}
	for _, g := range all {
		if g.Blocks == nil {
			continue
		}
		held := 0
		deferredUnlocks := 0
		for _, b := range g.Blocks {
			for _, in := range b.Instrs {
				var c *ssa.CallCommon
				isDefer := false
				switch in := in.(type) {
				case *ssa.Call:
					c = &in.Call
				case *ssa.Defer:
					c = &in.Call
					isDefer = true
				case *ssa.Go:
					c = &in.Call
				}
				if c == nil || c.StaticCallee() == nil {
					continue
				}
				callee := c.StaticCallee()
				switch callee.String() {
				case "(*sync.RWMutex).Lock", "(*sync.RWMutex).RLock", "(*sync.Mutex).Lock":
					held++
				case "(*sync.RWMutex).Unlock", "(*sync.RWMutex).RUnlock", "(*sync.Mutex).Unlock":
					if isDefer {
						deferredUnlocks++
					} else if held > 0 {
						held--
					}
				default:
					if isAccessor[callee] {
						if held == 0 {
							exposed[callee] = true
						} else {
							lockedCallers[g] = true
						}
					}
				}
			}
		}
	}
	for _, f := range all {
		if !isAccessor[f] && !lockedCallers[f] {
			continue
		}
		if isAccessor[f] && !lockedCallers[f] && !exposed[f] && !(f.Object() != nil && f.Object().Exported()) {
			continue
		}
		d := 0
		if lockedCallers[f] {
			d = depth
		}
		evs := c20Events(f, d, map[*ssa.Function]bool{})
		encoded[strings.TrimPrefix(f.String(), modPath+"/")] = true
		entries = append(entries, entry{name: f.String(), evs: evs, init: f.Synthetic == "package initializer" || f.Name() == "init"})
	}
	sort.Slice(entries, func(i, j int) bool { return entries[i].name < entries[j].name })

	known := readKnown()
	knownRegion := map[string]string{}
	for _, k := range known {
		if k.Property == "C20" && k.Status == "known" {
			knownRegion[k.Region] = k.What
		}
	}
	// SMT: one query per pair of conflicting accesses in a pair of entries
	type race struct {
		a, b   string
		ea, eb c20Event
		model  string
	}
	var races []race
	var samples []interface{}
	queries, sat, unsat := 0, 0, 0
	solverT := time.Duration(0)
	for i := range entries {
		for j := i; j < len(entries); j++ {
			A, B := entries[i], entries[j]
			if A.init || B.init {
				continue // package initialisation happens before any concurrent evaluation
			}
			for x, ea := range A.evs {
				for y, eb := range B.evs {
					if !(ea.Kind == "read" || ea.Kind == "write") || !(eb.Kind == "read" || eb.Kind == "write") {
						continue
					}
					if ea.Obj != eb.Obj || (ea.Kind == "read" && eb.Kind == "read") {
						continue
					}
					q := c20Query(A.evs, B.evs, x, y)
					t1 := time.Now()
					res, model := c20Solve(q)
					solverT += time.Since(t1)
					queries++
					if len(samples) < 6 {
						samples = append(samples, map[string]interface{}{"thread_A": A.name, "thread_B": B.name, "access_A": ea, "access_B": eb, "verdict": res})
					}
					switch res {
					case "sat":
						sat++
						races = append(races, race{A.name, B.name, ea, eb, model})
					case "unsat":
						unsat++
					default:
						fmt.Println("CHECK-BROKEN: solver answered", res)
						return 2
					}
				}
			}
		}
	}
	// report: one finding per (function pair, map)
	seen := map[string]bool{}
	var violations, knownLines []string
	validated := 0
	for _, r := range races {
		key := r.a + "|" + r.b + "|" + r.ea.Obj
		if seen[key] {
			continue
		}
		seen[key] = true
		region := "C20/" + strings.TrimPrefix(r.a, modPath+"/") + "~" + strings.TrimPrefix(r.b, modPath+"/")
		ok, out := c20Replay(r.a, r.b)
		desc := fmt.Sprintf("%s (%s %s at %s) races with %s (%s at %s): schedule %s", r.a, r.ea.Kind, r.ea.Obj, r.ea.Where, r.b, r.eb.Kind, r.eb.Where, r.model)
		if what, isKnown := knownRegion[region]; isKnown {
			if ok {
				validated++
			}
			knownLines = append(knownLines, fmt.Sprintf("KNOWN-FINDING: property=C20 %s [%s]", what, region))
			continue
		}
		if !ok {
			fmt.Println("CHECK-BROKEN: ENGINE-MISMATCH: race schedule does not reproduce under go test -race:", desc, tail(out, 600))
			return 2
		}
		validated++
		dir := filepath.Join(verifDir, "replays", "C20")
		os.MkdirAll(dir, 0o755)
		p := filepath.Join(dir, fmt.Sprintf("%s-%d.json", tier, len(violations)))
		b, _ := json.MarshalIndent(map[string]interface{}{"kind": "race", "thread_A": r.a, "thread_B": r.b, "access_A": r.ea, "access_B": r.eb, "schedule": r.model, "property": "C20"}, "", " ")
		os.WriteFile(p, b, 0o644)
		violations = append(violations, fmt.Sprintf("VIOLATION property=C20 replay=%s (%s)", p, desc))
	}
	// second family: publication consistency of the two symbol tables (c20pub.go)
	pub := runC20Pub(l, tier)
	if pub.broken != "" {
		fmt.Println("CHECK-BROKEN:", pub.broken)
		return 2
	}
	violations = append(violations, pub.violations...)
	validated += pub.validated
	queries += pub.queries
	sat += pub.sat
	unsat += pub.unsat
	solverT += pub.solverT
	samples = append(samples, pub.samples...)
	encoded["object.GetSymHash (executed in the engine, event trace)"] = true
	encoded["object.SymHash2Str (executed in the engine, event trace)"] = true
	var enc []string
	for f := range encoded {
		enc = append(enc, f)
	}
	sort.Strings(enc)
	var entryNames []string
	for _, e := range entries {
		entryNames = append(entryNames, strings.TrimPrefix(e.name, modPath+"/"))
	}
	if len(samples) == 0 {
		samples = append(samples, "no conflicting access pair exists")
	}
	seed, _ := strconv.Atoi(os.Getenv("VERIF_SEED"))
	ev := map[string]interface{}{
		"property_id": "C20", "tier": tier, "seed": seed, "level": "model_checking",
		"wall_s": time.Since(t0).Seconds(), "violations": len(violations),
		"assumptions": []string{
			"accesses = Lookup / MapUpdate / range / len / delete on a value loaded from a package-level map variable, found in the go/ssa form of every repo function; locks = calls of sync.(RW)Mutex methods on package-level mutexes (deferred unlocks at function end); callees inlined to the stated depth",
			"instructions are taken in block order (linear over-approximation of paths within a function)",
			"package initialisers happen before any concurrent evaluation",
			"a data race needs two threads: pairs of entry functions, one call each",
			"a satisfiable schedule is confirmed by a generated go test -race stress test before it is reported",
			"second family (symbol lookup consistency): the real GetSymHash / SymHash2Str are executed in the engine on a fresh symbol with event tracing; the traces (new-symbol path, known-symbol path, conversion) are the event lists of thread A = intern and thread B = intern the same symbol, then convert the hash; a read recorded as hit needs an earlier write of its key, a read recorded as miss has every write of its key later; the query asks for B's conversion read to precede every write of its key; a satisfiable schedule is confirmed by a native stress test (8 workers x 20000 fresh names x up to 4 rounds) before it is reported",
		},
		"coverage": map[string]interface{}{
			"states": max1(len(entries)), "transitions": max1(queries), "traces_validated_against_impl": validated,
			"samples": samples, "obligations": queries, "discharged": unsat,
			"evaluations": max1(queries), "distinct_nontrivial": queries,
			"event_traces":      pub.traces,
			"rule":              "one query per pair of conflicting accesses (same package-level map, at least one write) in a pair of entry functions: timestamps for every lock/access event of both threads, program order, RW-mutex exclusion, and adjacency of the two accesses",
			"exhaustive":        true,
			"functions_encoded": enc, "entry_functions": entryNames,
			"bounds":         map[string]interface{}{"threads": 2, "calls_per_thread": 1, "inline_depth": map[string]int{"quick": 3, "thorough": 5}[tier]},
			"outside_bounds": []string{"consistency between tables other than symHashTable / strTable", "races on anything other than package-level maps (struct fields, slices, PanObj.Pairs shared between goroutines)", "more than one call per thread (a race needs only two accesses)", "locks taken through interfaces or function values", "the HTTP server's handler goroutines are covered only through the table accessors they call"},
			"solver":         map[string]interface{}{"binary": "z3 (one process per query)", "queries": queries, "sat": sat, "unsat": unsat, "unknown": 0, "time_s": solverT.Seconds()},
		},
	}
	evb, _ := json.MarshalIndent(ev, "", " ")
	os.MkdirAll(filepath.Join(verifDir, "evidence"), 0o755)
	os.WriteFile(filepath.Join(verifDir, "evidence", "C20.json"), evb, 0o644)
	fmt.Printf("C20 %s: entries=%d queries=%d sat=%d unsat=%d validated=%d solver=%.1fs wall=%.1fs\n", tier, len(entries), queries, sat, unsat, validated, solverT.Seconds(), time.Since(t0).Seconds())
	for _, l := range knownLines {
		fmt.Println(l)
	}
	if len(violations) > 0 {
		for _, v := range violations {
			fmt.Println(v)
		}
		return 1
	}
	return 0
}

// c20Query: SMT-LIB text for "accesses A[x] and B[y] are adjacent in some schedule".
func c20Query(a, b []c20Event, x, y int) string {
	var sb strings.Builder
	decl := func(th string, n int) {
		for i := 0; i < n; i++ {
			fmt.Fprintf(&sb, "(declare-const %s%d Int)\n", th, i)
		}
		for i := 1; i < n; i++ {
			fmt.Fprintf(&sb, "(assert (< %s%d %s%d))\n", th, i-1, th, i)
		}
	}
	decl("a", len(a))
	decl("b", len(b))
	// all timestamps distinct
	for i := range a {
		for j := range b {
			fmt.Fprintf(&sb, "(assert (not (= a%d b%d)))\n", i, j)
		}
	}
	// critical sections per mutex: (acquire index, release index, exclusive)
	type cs struct {
		acq, rel int
		excl     bool
		mu       string
	}
	sections := func(evs []c20Event) []cs {
		var out []cs
		open := map[string][]cs{}
		for i, e := range evs {
			switch e.Kind {
			case "lock", "rlock":
				open[e.Obj] = append(open[e.Obj], cs{acq: i, excl: e.Kind == "lock", mu: e.Obj})
			case "unlock", "runlock":
				if st := open[e.Obj]; len(st) > 0 {
					c := st[len(st)-1]
					open[e.Obj] = st[:len(st)-1]
					c.rel = i
					out = append(out, c)
				}
			}
		}
		return out
	}
	for _, ca := range sections(a) {
		for _, cb := range sections(b) {
			if ca.mu != cb.mu || (!ca.excl && !cb.excl) {
				continue
			}
			fmt.Fprintf(&sb, "(assert (or (< a%d b%d) (< b%d a%d)))\n", ca.rel, cb.acq, cb.rel, ca.acq)
		}
	}
	fmt.Fprintf(&sb, "(assert (or (= (+ a%d 1) b%d) (= (+ b%d 1) a%d)))\n", x, y, y, x)
	sb.WriteString("(check-sat)\n(get-model)\n")
	return sb.String()
}

func c20Solve(q string) (string, string) {
	cmd := exec.Command("z3", "-in", "-t:20000")
	cmd.Stdin = strings.NewReader(q)
	out, _ := cmd.Output()
	txt := strings.TrimSpace(string(out))
	switch {
	case strings.HasPrefix(txt, "unsat"):
		return "unsat", ""
	case strings.HasPrefix(txt, "sat"):
		// compact model: name=value pairs
		var parts []string
		fs := strings.Fields(strings.NewReplacer("(", " ", ")", " ").Replace(txt))
		for i := 0; i+4 < len(fs); i++ {
			if fs[i] == "define-fun" {
				v := fs[i+3]
				if v == "-" {
					v = "-" + fs[i+4]
				}
				parts = append(parts, fs[i+1]+"="+v)
			}
		}
		sort.Strings(parts)
		return "sat", strings.Join(parts, " ")
	}
	return "unknown: " + firstLineOf(txt), ""
}

func firstLineOf(s string) string {
	if i := strings.IndexByte(s, '\n'); i >= 0 {
		return s[:i]
	}
	return s
}

// c20Replay: confirm a race between two functions of package object with go test -race.
func c20Replay(a, b string) (bool, string) {
	call := func(name, v string) string {
		short := strings.TrimPrefix(name, modPath+"/object.")
		switch short {
		case "GetSymHash", "readSymHash":
			return fmt.Sprintf("_, _ = %s(fmt.Sprintf(\"verif_%%s_%%d\", %q, i)), 0", map[string]string{"GetSymHash": "GetSymHash", "readSymHash": "readSymHash"}[short], v)
		case "writeSymHash":
			return fmt.Sprintf("writeSymHash(uint64(i)+%d, fmt.Sprintf(\"verif_w_%%s_%%d\", %q, i))", 1000000, v)
		case "SymHash2Str":
			return "_, _ = SymHash2Str(uint64(i))"
		}
		return ""
	}
	ca, cb := call(a, "a"), call(b, "b")
	if ca == "" || cb == "" {
		return false, "no replay template for " + a + " / " + b
	}
	src := fmt.Sprintf(`package object

import (
	"fmt"
	"sync"
	"testing"
)

func TestVerifRace(t *testing.T) {
	var wg sync.WaitGroup
	wg.Add(2)
	go func() {
		defer wg.Done()
		for i := 0; i < 3000; i++ {
			%s
		}
	}()
	go func() {
		defer wg.Done()
		for i := 0; i < 3000; i++ {
			%s
		}
	}()
	wg.Wait()
	_ = fmt.Sprint()
}
`, ca, cb)
	tmp, _ := os.MkdirTemp("", "verif-race-")
	defer os.RemoveAll(tmp)
	tf := filepath.Join(tmp, "zz_race_test.go")
	os.WriteFile(tf, []byte(src), 0o644)
	ovb, _ := json.Marshal(map[string]interface{}{"Replace": map[string]string{filepath.Join(repoDir, "object", "zz_verif_race_test.go"): tf}})
	ovp := filepath.Join(tmp, "overlay.json")
	os.WriteFile(ovp, ovb, 0o644)
	cmd := exec.Command("go", "test", "-race", "-vet=off", "-count=1", "-run", "TestVerifRace", "-overlay", ovp, "./object")
	cmd.Dir = repoDir
	cmd.Env = append(os.Environ(), "GOFLAGS=-mod=mod", "GOPROXY=off", "GOSUMDB=off", "GOTOOLCHAIN=local")
	var out bytes.Buffer
	cmd.Stdout = &out
	cmd.Stderr = &out
	err := cmd.Run()
	txt := out.String()
	raced := strings.Contains(txt, "DATA RACE") || strings.Contains(txt, "concurrent map")
	return err != nil && raced, txt
}
