package main

// C20, second family — symbol lookup stays consistent under every interleaving.
//
// The first family shows that no two conflicting table accesses can be adjacent (no data
// race).  Data-race freedom alone does not keep the two symbol tables consistent: if a
// symbol is published to symHashTable and strTable in two separate critical sections,
// every access is locked and still another evaluation can obtain a hash from GetSymHash
// that SymHash2Str does not know ("corrupt symbol lookup").
//
// Encoding.  The real object.GetSymHash / object.SymHash2Str are executed in the engine
// (concrete inputs) with event tracing on: the trace of one call is the real code's own
// sequence of mutex operations and table reads / writes, with the key and whether the key
// was present.  Three traces: interning a new symbol (miss path), interning it again (hit
// path), and converting the hash back.  The solver then gets integer timestamps for the
// events of two threads
//     A = intern(new symbol)            B = intern(same symbol) ; SymHash2Str(hash)
// with program order, RW-mutex exclusion, and table semantics for every recorded read
// (a read recorded as hit needs an earlier write of that key, a read recorded as miss has
// every write of that key later), and is asked for a schedule in which B's final read of
// strTable comes before every write of that key: B holds a hash the table cannot convert.

import (
	"bytes"
	"encoding/json"
	"fmt"
	"os"
	"os/exec"
	"path/filepath"
	"strings"
	"time"

	"gosym/interp"
)

var c20SharedCells int

type c20PubResult struct {
	queries, sat, unsat int
	solverT             time.Duration
	violations          []string
	samples             []interface{}
	validated           int
	traces              map[string][]interp.SyncEvent
	broken              string
}

func c20Traces(l *loaded) (map[string][]interp.SyncEvent, string) {
	eng := newEngine(l)
	get := l.fn("object.GetSymHash")
	back := l.fn("object.SymHash2Str")
	if _, err := eng.Call(get.Pkg.Func("init")); err != nil {
		return nil, "init of package object: " + err.Error()
	}
	const sym = "verif_c20_fresh_symbol"
	out := map[string][]interp.SyncEvent{}
	// a str object that exists before the traced calls and is shared by them (as the keys handed out
	// by SymHash2Str / Env.Items and strs of a common outer scope are)
	h0, err0 := eng.Call(get, sym+"_shared")
	if err0 != nil {
		return nil, "GetSymHash: " + err0.Error()
	}
	sharedStr, err0 := eng.Call(l.fn("object.VH_C20_sharedStr"), h0)
	if err0 != nil {
		return nil, "VH_C20_sharedStr: " + err0.Error()
	}
	// every cell reachable from the repo's package-level variables is shared state
	c20SharedCells = eng.MarkShared(modPath)
	eng.TraceEvents = true
	eng.Events = nil
	h, err := eng.Call(get, sym)
	if err != nil {
		return nil, "GetSymHash: " + err.Error()
	}
	out["intern_new"] = eng.Events
	eng.Events = nil
	if _, err := eng.Call(get, sym); err != nil {
		return nil, "GetSymHash: " + err.Error()
	}
	out["intern_known"] = eng.Events
	eng.Events = nil
	if _, err := eng.Call(back, h); err != nil {
		return nil, "SymHash2Str: " + err.Error()
	}
	out["hash_to_str"] = eng.Events
	eng.Events = nil
	if _, err := eng.Call(get, sym+"_2"); err != nil {
		return nil, "GetSymHash: " + err.Error()
	}
	out["intern_other_new"] = eng.Events
	for _, m := range []string{"SymHash", "Hash", "Inspect"} {
		eng.Events = nil
		if _, err := eng.Call(l.fn("object.VH_C20_str"+m), sharedStr); err != nil {
			return nil, "PanStr." + m + ": " + err.Error()
		}
		out["shared_str_"+m] = eng.Events
	}
	eng.TraceEvents = false
	return out, ""
}

// c20PubQuery: threads a, b (event lists); final = index in b of the read that must find its key.
func c20PubQuery(a, b []interp.SyncEvent, final int) string {
	var sb strings.Builder
	decl := func(th string, n int) {
		for i := 0; i < n; i++ {
			fmt.Fprintf(&sb, "(declare-const %s%d Int)\n", th, i)
		}
		for i := 1; i < n; i++ {
			fmt.Fprintf(&sb, "(assert (< %s%d %s%d))\n", th, i-1, th, i)
		}
	}
	decl("a", len(a))
	decl("b", len(b))
	for i := range a {
		for j := range b {
			fmt.Fprintf(&sb, "(assert (not (= a%d b%d)))\n", i, j)
		}
	}
	type cs struct {
		acq, rel int
		excl     bool
		mu       string
	}
	sections := func(evs []interp.SyncEvent) []cs {
		var out []cs
		open := map[string][]cs{}
		for i, e := range evs {
			switch e.Kind {
			case "lock", "rlock":
				open[e.Obj] = append(open[e.Obj], cs{acq: i, excl: e.Kind == "lock", mu: e.Obj})
			case "unlock", "runlock":
				if st := open[e.Obj]; len(st) > 0 {
					c := st[len(st)-1]
					open[e.Obj] = st[:len(st)-1]
					c.rel = i
					out = append(out, c)
				}
			}
		}
		return out
	}
	for _, ca := range sections(a) {
		for _, cb := range sections(b) {
			if ca.mu != cb.mu || (!ca.excl && !cb.excl) {
				continue
			}
			fmt.Fprintf(&sb, "(assert (or (< a%d b%d) (< b%d a%d)))\n", ca.rel, cb.acq, cb.rel, ca.acq)
		}
	}
	// table semantics for the recorded outcome of every read (except the final one)
	type ev struct {
		name string
		e    interp.SyncEvent
	}
	var all []ev
	for i, e := range a {
		all = append(all, ev{fmt.Sprintf("a%d", i), e})
	}
	for i, e := range b {
		all = append(all, ev{fmt.Sprintf("b%d", i), e})
	}
	writesOf := func(obj, key string) []string {
		var ws []string
		for _, x := range all {
			if x.e.Kind == "write" && x.e.Obj == obj && x.e.Key == key {
				ws = append(ws, x.name)
			}
		}
		return ws
	}
	finalName := fmt.Sprintf("b%d", final)
	for _, x := range all {
		if x.e.Kind != "read" {
			continue
		}
		ws := writesOf(x.e.Obj, x.e.Key)
		if x.name == finalName {
			// the violation: no write of the key precedes B's final read
			for _, w := range ws {
				fmt.Fprintf(&sb, "(assert (< %s %s))\n", x.name, w)
			}
			continue
		}
		if x.e.Hit {
			if len(ws) == 0 {
				sb.WriteString("(assert false)\n")
				continue
			}
			sb.WriteString("(assert (or")
			for _, w := range ws {
				fmt.Fprintf(&sb, " (< %s %s)", w, x.name)
			}
			sb.WriteString("))\n")
		} else {
			for _, w := range ws {
				fmt.Fprintf(&sb, "(assert (< %s %s))\n", x.name, w)
			}
		}
	}
	sb.WriteString("(check-sat)\n(get-model)\n")
	return sb.String()
}

func runC20Pub(l *loaded, tier string) c20PubResult {
	var r c20PubResult
	tr, broken := c20Traces(l)
	if broken != "" {
		r.broken = broken
		return r
	}
	r.traces = tr
	lookup := tr["hash_to_str"]
	// sanity of the traces (vacuity guard): the new-symbol path writes both tables, the
	// conversion reads one of them, and sequentially the conversion succeeds
	nw := 0
	for _, e := range tr["intern_new"] {
		if e.Kind == "write" {
			nw++
		}
	}
	finalIdx := -1
	for i, e := range lookup {
		if e.Kind == "read" {
			finalIdx = i
		}
	}
	if nw < 2 || finalIdx < 0 {
		r.broken = fmt.Sprintf("trace of GetSymHash / SymHash2Str has no table accesses (%d writes, final read %d): event tracing does not see the tables", nw, finalIdx)
		return r
	}
	if !lookup[finalIdx].Hit {
		// no schedule needed: a hash returned by GetSymHash cannot be converted back
		p := c20WriteReplay(tier, len(r.violations), map[string]interface{}{"kind": "publication", "schedule": "sequential", "traces": tr})
		ok, out := c20PubReplay()
		if !ok {
			r.broken = "ENGINE-MISMATCH: sequential SymHash2Str miss does not reproduce natively: " + tail(out, 400)
			return r
		}
		r.validated++
		r.violations = append(r.violations, fmt.Sprintf("VIOLATION property=C20 replay=%s (SymHash2Str does not know a hash that GetSymHash returned, even without concurrency)", p))
		return r
	}
	for _, bname := range []string{"intern_known", "intern_new"} {
		b := append(append([]interp.SyncEvent{}, tr[bname]...), lookup...)
		final := len(tr[bname]) + finalIdx
		q := c20PubQuery(tr["intern_new"], b, final)
		t1 := time.Now()
		res, model := c20Solve(q)
		r.solverT += time.Since(t1)
		r.queries++
		r.samples = append(r.samples, map[string]interface{}{"thread_A": "GetSymHash(new symbol)", "thread_B": "GetSymHash(same symbol) [" + bname + " path]; SymHash2Str(hash)", "verdict": res})
		switch res {
		case "unsat":
			r.unsat++
		case "sat":
			r.sat++
			p := c20WriteReplay(tier, len(r.violations), map[string]interface{}{"kind": "publication", "thread_A": tr["intern_new"], "thread_B": b, "final_read": final, "schedule": model})
			ok, out := c20PubReplay()
			if !ok {
				r.broken = "ENGINE-MISMATCH: the schedule in which SymHash2Str misses a published hash does not reproduce in the native stress test: " + model + " " + tail(out, 400)
				return r
			}
			r.validated++
			r.violations = append(r.violations, fmt.Sprintf("VIOLATION property=C20 replay=%s (symbol lookup can be corrupted: thread B obtains a hash from GetSymHash [%s path] while thread A is between its two table writes, and SymHash2Str does not know it; schedule %s)", p, bname, model))
		default:
			r.broken = "solver answered " + res
			return r
		}
	}
	c20TraceRaces(tr, tier, &r)
	return r
}

func c20WriteReplay(tier string, n int, v map[string]interface{}) string {
	dir := filepath.Join(verifDir, "replays", "C20")
	os.MkdirAll(dir, 0o755)
	p := filepath.Join(dir, fmt.Sprintf("%s-pub-%d.json", tier, n))
	v["property"] = "C20"
	b, _ := json.MarshalIndent(v, "", " ")
	os.WriteFile(p, b, 0o644)
	return p
}

// c20PubReplay: native stress test: workers intern the same fresh names and convert the
// hash back at once; reproduced iff some conversion fails.
func c20PubReplay() (bool, string) {
	src := `package object

import (
	"fmt"
	"sync"
	"sync/atomic"
	"testing"
)

func TestVerifPublication(t *testing.T) {
	var bad int64
	for round := 0; round < 4 && atomic.LoadInt64(&bad) == 0; round++ {
		var wg sync.WaitGroup
		for w := 0; w < 8; w++ {
			wg.Add(1)
			go func() {
				defer wg.Done()
				for i := 0; i < 20000; i++ {
					h := GetSymHash(fmt.Sprintf("verif_pub_%d_%d", round, i))
					if _, ok := SymHash2Str(h); !ok {
						atomic.AddInt64(&bad, 1)
					}
				}
			}()
		}
		wg.Wait()
	}
	if bad > 0 {
		t.Fatalf("PUBLICATION-BROKEN: %d hashes returned by GetSymHash were unknown to SymHash2Str", bad)
	}
}
`
	tmp, _ := os.MkdirTemp("", "verif-pub-")
	defer os.RemoveAll(tmp)
	tf := filepath.Join(tmp, "zz_pub_test.go")
	os.WriteFile(tf, []byte(src), 0o644)
	ovb, _ := json.Marshal(map[string]interface{}{"Replace": map[string]string{filepath.Join(repoDir, "object", "zz_verif_pub_test.go"): tf}})
	ovp := filepath.Join(tmp, "overlay.json")
	os.WriteFile(ovp, ovb, 0o644)
	cmd := exec.Command("go", "test", "-vet=off", "-count=1", "-run", "TestVerifPublication", "-overlay", ovp, "./object")
	cmd.Dir = repoDir
	cmd.Env = append(os.Environ(), "GOFLAGS=-mod=mod", "GOPROXY=off", "GOSUMDB=off", "GOTOOLCHAIN=local")
	var out bytes.Buffer
	cmd.Stdout = &out
	cmd.Stderr = &out
	err := cmd.Run()
	txt := out.String()
	return err != nil && strings.Contains(txt, "PUBLICATION-BROKEN"), txt
}


// ---------------------------------------------------------------- races on the traced paths
//
// The static family sees package-level maps only.  The traces also contain every load and
// store of a memory cell reachable from a package-level variable (a shared hasher, buffer,
// counter ...), so the same adjacency query is asked for every pair of conflicting events of
// two traces: same map (any key) or same cell, at least one write.  Events are deduplicated
// by (object, cell, kind, set of locks held): the verdict depends on nothing else.

func c20HeldSig(evs []interp.SyncEvent) []string {
	sig := make([]string, len(evs))
	var held []string
	for i, e := range evs {
		switch e.Kind {
		case "lock", "rlock":
			held = append(held, e.Kind+":"+e.Obj)
		case "unlock", "runlock":
			if len(held) > 0 {
				held = held[:len(held)-1]
			}
		}
		sig[i] = strings.Join(held, ",")
	}
	return sig
}

func c20TraceRaces(tr map[string][]interp.SyncEvent, tier string, r *c20PubResult) {
	names := []string{"intern_new", "intern_other_new", "intern_known", "hash_to_str", "shared_str_SymHash", "shared_str_Hash", "shared_str_Inspect"}
	conv := func(evs []interp.SyncEvent) []c20Event {
		out := make([]c20Event, len(evs))
		for i, e := range evs {
			out[i] = c20Event{Kind: e.Kind, Obj: e.Obj, Where: e.Where}
		}
		return out
	}
	isAcc := func(e interp.SyncEvent) bool { return e.Kind == "read" || e.Kind == "write" }
	reported := map[string]bool{}
	for i, an := range names {
		for _, bn := range names[i:] {
			a, b := tr[an], tr[bn]
			ca, cb := conv(a), conv(b)
			sa, sb := c20HeldSig(a), c20HeldSig(b)
			asked := map[string]bool{}
			for x, ea := range a {
				if !isAcc(ea) {
					continue
				}
				for y, eb := range b {
					if !isAcc(eb) || ea.Obj != eb.Obj || (ea.Kind == "read" && eb.Kind == "read") {
						continue
					}
					if strings.HasPrefix(ea.Obj, "cell:") && ea.Key != eb.Key {
						continue
					}
					key := ea.Obj + "|" + ea.Kind + "|" + sa[x] + "||" + eb.Kind + "|" + sb[y]
					if strings.HasPrefix(ea.Obj, "cell:") {
						key += "|" + ea.Key
					}
					if asked[key] {
						continue
					}
					asked[key] = true
					t1 := time.Now()
					res, model := c20Solve(c20Query(ca, cb, x, y))
					r.solverT += time.Since(t1)
					r.queries++
					switch res {
					case "unsat":
						r.unsat++
					case "sat":
						r.sat++
						rk := ea.Obj + "|" + ea.Where + "|" + eb.Where
						if reported[rk] {
							continue
						}
						reported[rk] = true
						p := c20WriteReplay(tier, len(r.violations), map[string]interface{}{"kind": "trace-race", "thread_A": an, "thread_B": bn, "access_A": ea, "access_B": eb, "schedule": model})
						ok, out := c20TraceRaceReplay()
						if !ok {
							r.broken = fmt.Sprintf("ENGINE-MISMATCH: race on %s (%s %s / %s %s) does not reproduce under go test -race: %s", ea.Obj, ea.Kind, ea.Where, eb.Kind, eb.Where, tail(out, 400))
							return
						}
						r.validated++
						r.violations = append(r.violations, fmt.Sprintf("VIOLATION property=C20 replay=%s (unsynchronised access to shared state %s: %s at %s in %s and %s at %s in %s can be adjacent; schedule %s)", p, ea.Obj, ea.Kind, ea.Where, an, eb.Kind, eb.Where, bn, model))
					default:
						r.broken = "solver answered " + res
						return
					}
				}
			}
		}
	}
}

// c20TraceRaceReplay: two goroutines intern distinct fresh names and convert hashes back, under the race detector.
func c20TraceRaceReplay() (bool, string) {
	src := `package object

import (
	"fmt"
	"sync"
	"testing"
)

func TestVerifTraceRace(t *testing.T) {
	var wg sync.WaitGroup
	shared := make([]*PanStr, 3000)
	for i := range shared {
		shared[i] = NewPanStr(fmt.Sprintf("verif_shared_%d", i))
	}
	for w := 0; w < 2; w++ {
		wg.Add(1)
		go func(w int) {
			defer wg.Done()
			for i := 0; i < 3000; i++ {
				h := GetSymHash(fmt.Sprintf("verif_tr_%d_%d", w, i))
				_, _ = SymHash2Str(h)
				_ = GetSymHash(fmt.Sprintf("verif_tr_%d_%d", w, i))
				_ = shared[i].SymHash()
				_ = shared[i].Hash()
				_ = shared[i].Inspect()
			}
		}(w)
	}
	wg.Wait()
}
`
	tmp, _ := os.MkdirTemp("", "verif-trrace-")
	defer os.RemoveAll(tmp)
	tf := filepath.Join(tmp, "zz_trrace_test.go")
	os.WriteFile(tf, []byte(src), 0o644)
	ovb, _ := json.Marshal(map[string]interface{}{"Replace": map[string]string{filepath.Join(repoDir, "object", "zz_verif_trrace_test.go"): tf}})
	ovp := filepath.Join(tmp, "overlay.json")
	os.WriteFile(ovp, ovb, 0o644)
	cmd := exec.Command("go", "test", "-race", "-vet=off", "-count=1", "-run", "TestVerifTraceRace", "-overlay", ovp, "./object")
	cmd.Dir = repoDir
	cmd.Env = append(os.Environ(), "GOFLAGS=-mod=mod", "GOPROXY=off", "GOSUMDB=off", "GOTOOLCHAIN=local")
	var out bytes.Buffer
	cmd.Stdout = &out
	cmd.Stderr = &out
	err := cmd.Run()
	txt := out.String()
	return err != nil && (strings.Contains(txt, "DATA RACE") || strings.Contains(txt, "concurrent map")), txt
}
