package main

import (
	"bytes"
	"encoding/json"
	"fmt"
	"os"
	"os/exec"
	"path/filepath"
	"regexp"
	"sort"
	"strconv"
	"strings"
	"sync"
	"time"

	"gosym/interp"
)

type KnownEntry struct {
	Property string `json:"property"`
	Region   string `json:"region,omitempty"`
	Status   string `json:"status"` // "known" | "fixed"
	Commit   string `json:"commit,omitempty"`
	What     string `json:"what"`
	Line     string `json:"line,omitempty"`
}

type knownFile struct {
	Findings []KnownEntry `json:"findings"`
}

func readKnown() []KnownEntry {
	b, err := os.ReadFile(filepath.Join(verifDir, "known_findings.json"))
	if err != nil {
		return nil
	}
	var kf knownFile
	if err := json.Unmarshal(b, &kf); err != nil {
		fatal("known_findings.json: %v", err)
	}
	return kf.Findings
}

type replayEntry struct {
	Func   string            `json:"func"`
	Params []int             `json:"params"`
	Vector []interp.VecEntry `json:"vector"`
	Repeat int               `json:"repeat,omitempty"`
	// bookkeeping (not used by the native side)
	Expect string `json:"expect,omitempty"` // "fail" | "pass"
	Msg    string `json:"msg,omitempty"`
	Kind   string `json:"kind,omitempty"`
	Region string `json:"region,omitempty"`
	Prop   string `json:"property,omitempty"`
}

// nativeReplay runs the entries through `go test -overlay` in /repo and returns one
// result string per entry ("OK", "ASSERT: ...", "PANIC: ...").
func nativeReplay(entries []replayEntry) ([]string, error) {
	if len(entries) == 0 {
		return nil, nil
	}
	tmp, err := os.MkdirTemp("", "verif-replay-")
	if err != nil {
		return nil, err
	}
	defer os.RemoveAll(tmp)
	ov := map[string]string{}
	for virt, real := range overlayFiles() {
		ov[virt] = real
	}
	ov[filepath.Join(repoDir, "zzverifw", "zz_replay_test.go")] = filepath.Join(verifDir, "harness", "zzverifw", "zz_replay_test.go")
	ovb, _ := json.Marshal(map[string]interface{}{"Replace": ov})
	ovPath := filepath.Join(tmp, "overlay.json")
	os.WriteFile(ovPath, ovb, 0o644)
	eb, _ := json.Marshal(entries)
	ePath := filepath.Join(tmp, "entries.json")
	os.WriteFile(ePath, eb, 0o644)
	bin := filepath.Join(tmp, "replay.test")
	goenv := append(os.Environ(), "VERIF_REPLAY_FILE="+ePath, "GOFLAGS=-mod=mod", "GOPROXY=off", "GOSUMDB=off", "GOTOOLCHAIN=local")
	build := exec.Command("go", "test", "-c", "-vet=off", "-overlay", ovPath, "-o", bin, "./zzverifw")
	build.Dir = repoDir
	build.Env = goenv
	if bo, err := build.CombinedOutput(); err != nil {
		return nil, fmt.Errorf("native replay build failed: %v\n%s", err, tail(string(bo), 3000))
	}
	cmd := exec.Command(bin, "-test.run", "TestVerifReplay", "-test.v", "-test.timeout", "20m")
	cmd.Dir = repoDir
	cmd.Env = goenv
	var out bytes.Buffer
	cmd.Stdout = &out
	cmd.Stderr = &out
	runErr := cmd.Run()
	res := make([]string, len(entries))
	re := regexp.MustCompile(`(?m)^REPLAY (\d+) (.*)$`)
	n := 0
	for _, m := range re.FindAllStringSubmatch(out.String(), -1) {
		i, _ := strconv.Atoi(m[1])
		if i < len(res) {
			res[i] = m[2]
			n++
		}
	}
	if n != len(entries) {
		return res, fmt.Errorf("native replay produced %d of %d results (err=%v):\n%s", n, len(entries), runErr, tail(out.String(), 3000))
	}
	return res, nil
}

func tail(s string, n int) string {
	if len(s) > n {
		return s[len(s)-n:]
	}
	return s
}

type checkOutcome struct {
	violations []string
	known      []string
	broken     []string
}

func runCheck(id, tier string) int {
	t0 := time.Now()
	if id == "C01" {
		genReplPool() // REPL line pool regenerated from /repo/runscript's own string literals
	}
	jobs := jobsFor(id, tier)
	if len(jobs) == 0 {
		fatal("no jobs for %s %s", id, tier)
	}
	known := readKnown()
	var knownNames []string
	knownWhat := map[string]string{}
	for _, k := range known {
		if k.Property == id && k.Status == "known" {
			knownNames = append(knownNames, k.Region)
			knownWhat[k.Region] = k.What
		}
	}
	for _, j := range jobs {
		j.ID = id
		j.Known = knownNames
	}
	results := runJobs(jobs)

	oc := &checkOutcome{}
	var entries []replayEntry
	agg := &JobResult{Aborted: map[string]int{}, AssertSites: map[string]int{}, Reached: map[string]int{}}
	funcs := map[string]bool{}
	var samples []interp.Sample
	perJob := []map[string]interface{}{}
	siteHits := map[string]int{}
	for i, r := range results {
		j := jobs[i]
		if r == nil || r.Error != "" {
			e := "no result"
			if r != nil {
				e = r.Error
			}
			oc.broken = append(oc.broken, fmt.Sprintf("job %s: %s", j.Name, e))
			continue
		}
		agg.Paths += r.Paths
		agg.Completed += r.Completed
		agg.SymPaths += r.SymPaths
		agg.Decisions += r.Decisions
		agg.Asserts += r.Asserts
		agg.Discharged += r.Discharged
		agg.AssertUnk += r.AssertUnk
		agg.Queries += r.Queries
		agg.Sat += r.Sat
		agg.Unsat += r.Unsat
		agg.Unknown += r.Unknown
		agg.SolverS += r.SolverS
		agg.Instr += r.Instr
		agg.QueueLeft += r.QueueLeft
		if r.BoundHit {
			agg.BoundHit = true
		}
		for k, v := range r.Aborted {
			agg.Aborted[k] += v
		}
		for k, v := range r.AssertSites {
			agg.AssertSites[j.Func+": "+k] += v
		}
		for _, f := range r.Funcs {
			funcs[f] = true
		}
		// vacuity guards (a path that ends in a known-finding region reached its assertion with a model:
		// it counts as reached, so a job made only of such paths is not vacuous)
		knownHits := 0
		for _, f := range r.Findings {
			if f.Kind == "known" {
				knownHits++
			}
		}
		if r.Completed == 0 && knownHits == 0 {
			oc.broken = append(oc.broken, fmt.Sprintf("job %s: no path completed (aborted=%v)", j.Name, r.Aborted))
		}
		for _, s := range r.StaticSites {
			k := j.Func + "|" + s
			if _, ok := siteHits[k]; !ok {
				siteHits[k] = 0
			}
			siteHits[k] += r.AssertSites[s]
			if j.optionalSite(s) {
				siteHits[k]++
			}
		}
		if len(r.Samples) == 0 && knownHits == 0 {
			oc.broken = append(oc.broken, fmt.Sprintf("job %s: reachability twin failed (no completed path has a model)", j.Name))
		}
		nViol := 0
		for _, f := range r.Findings {
			switch f.Kind {
			case "violation":
				if nViol < 4 {
					entries = append(entries, replayEntry{Func: f.Func, Params: f.Params, Vector: f.Vector, Expect: "fail", Msg: f.Msg, Kind: "violation", Prop: id, Repeat: j.ReplayRepeat})
				}
				nViol++
			case "known":
				entries = append(entries, replayEntry{Func: f.Func, Params: f.Params, Vector: f.Vector, Expect: "fail", Msg: f.Msg, Kind: "known", Region: f.Region, Prop: id, Repeat: j.ReplayRepeat})
			}
		}
		ns := 0
		for _, s := range r.Samples {
			if ns < j.witnesses() {
				entries = append(entries, replayEntry{Func: s.Func, Params: s.Params, Vector: s.Vector, Expect: "pass", Kind: "witness", Prop: id})
				ns++
			}
			if len(samples) < 12 {
				samples = append(samples, s)
			}
		}
		perJob = append(perJob, map[string]interface{}{"job": j.Name, "func": j.Func, "params": j.Params, "paths": r.Paths, "completed": r.Completed, "asserts": r.Asserts, "discharged": r.Discharged, "aborted": r.Aborted, "bound_hit": r.BoundHit, "queue_left": r.QueueLeft, "wall_s": r.WallS, "solver_s": r.SolverS, "queries": r.Queries, "int_mode": j.IntMode, "map_order": j.MapOrder, "max_paths": j.MaxPaths, "max_steps": j.MaxSteps})
	}

	for k, n := range siteHits {
		if n == 0 {
			oc.broken = append(oc.broken, fmt.Sprintf("vacuity: assertion site never reached in any job: %s", k))
		}
	}
	sort.Strings(oc.broken)

	// native replay of findings and witnesses
	validated := 0
	seenKnown := map[string]bool{}
	seenViol := map[string]bool{}
	replayDir := filepath.Join(verifDir, "replays", id)
	if len(entries) > 0 {
		res, err := nativeReplay(entries)
		if err != nil {
			oc.broken = append(oc.broken, err.Error())
		} else {
			nv := 0
			for i, e := range entries {
				got := res[i]
				switch e.Kind {
				case "witness":
					if got == "OK" {
						validated++
					} else if got == "ASSUME-FAILED" {
						// a witness must satisfy the harness assumptions
						oc.broken = append(oc.broken, fmt.Sprintf("ENGINE-MISMATCH: witness of %s%v violates an assumption natively", e.Func, e.Params))
					} else {
						oc.broken = append(oc.broken, fmt.Sprintf("ENGINE-MISMATCH: path proved by the engine fails natively: %s%v %v -> %s", e.Func, e.Params, e.Vector, got))
					}
				case "known":
					if got != "OK" && got != "ASSUME-FAILED" {
						validated++
						if !seenKnown[e.Region] {
							seenKnown[e.Region] = true
							oc.known = append(oc.known, fmt.Sprintf("KNOWN-FINDING: property=%s %s [%s] e.g. %s%v vector=%s -> %s", id, knownWhat[e.Region], e.Region, e.Func, e.Params, vecString(e.Vector), got))
						}
					} else if !seenKnown[e.Region+"|mismatch"] {
						seenKnown[e.Region+"|mismatch"] = true
						oc.broken = append(oc.broken, fmt.Sprintf("ENGINE-MISMATCH: known-region counterexample does not reproduce natively: %s %s%v %s -> %s", e.Region, e.Func, e.Params, vecString(e.Vector), got))
					}
				case "violation":
					if got != "OK" && got != "ASSUME-FAILED" {
						validated++
						key := e.Func + "|" + e.Msg
						if seenViol[key] {
							continue
						}
						seenViol[key] = true
						os.MkdirAll(replayDir, 0o755)
						p := filepath.Join(replayDir, fmt.Sprintf("%s-%d.json", tier, nv))
						nv++
						b, _ := json.MarshalIndent([]replayEntry{e}, "", " ")
						os.WriteFile(p, b, 0o644)
						oc.violations = append(oc.violations, fmt.Sprintf("VIOLATION property=%s replay=%s (%s%v vector=%s: engine %q, native %q)", id, p, e.Func, e.Params, vecString(e.Vector), e.Msg, got))
					} else {
						oc.broken = append(oc.broken, fmt.Sprintf("ENGINE-MISMATCH: counterexample does not reproduce natively: %s%v %s engine=%q native=%q", e.Func, e.Params, vecString(e.Vector), e.Msg, got))
					}
				}
			}
		}
	}

	// property-specific solver components that are not path exploration
	extraEv := map[string]interface{}{}
	if id == "C17" {
		x := runC17Names(tier)
		oc.violations = append(oc.violations, x.violations...)
		oc.known = append(oc.known, x.known...)
		oc.broken = append(oc.broken, x.broken...)
		validated += x.validated
		agg.Asserts += x.queries
		agg.Discharged += x.unsat
		agg.Queries += x.queries
		extraEv = x.evidence
	}

	// evidence
	var fl []string
	for f := range funcs {
		fl = append(fl, f)
	}
	sort.Strings(fl)
	var sampleOut []interface{}
	for _, s := range samples {
		sampleOut = append(sampleOut, map[string]interface{}{"harness": s.Func, "params": s.Params, "path_condition": s.PC, "model": vecString(s.Vector), "observed": s.Obs})
	}
	if len(sampleOut) == 0 {
		sampleOut = append(sampleOut, "none (check broken)")
	}
	var knownSeen []string
	for k := range seenKnown {
		if !strings.HasSuffix(k, "|mismatch") {
			knownSeen = append(knownSeen, k)
		}
	}
	sort.Strings(knownSeen)
	seed, _ := strconv.Atoi(os.Getenv("VERIF_SEED"))
	ev := map[string]interface{}{
		"property_id": id,
		"tier":        tier,
		"seed":        seed,
		"level":       "model_checking",
		"wall_s":      time.Since(t0).Seconds(),
		"violations":  len(oc.violations),
		"assumptions": assumptionsFor(id),
		"coverage": map[string]interface{}{
			"states":                        max1(agg.Completed),
			"transitions":                   max1(agg.Decisions),
			"traces_validated_against_impl": validated,
			"samples":                       sampleOut,
			"obligations":                   agg.Asserts,
			"discharged":                    agg.Discharged,
			"evaluations":                   max1(agg.Paths),
			"distinct_nontrivial":           agg.SymPaths,
			"rule":                          "one evaluation = one feasible path of the harness through the real code (distinct by construction: each has a different decision prefix); non-trivial = its path condition constrains at least one symbolic input",
			"exhaustive":                    !agg.BoundHit && agg.QueueLeft == 0 && len(agg.Aborted) == 0,
			"explanation":                   "bounded symbolic execution of the SSA of the real code; every branch and assertion decided by the SMT solver; see bounds",
			"functions_encoded":             fl,
			"ssa_function_calls_executed":   agg.Instr,
			"bounds":                        boundsFor(id, tier, jobs),
			"outside_bounds":                outsideFor(id),
			"bound_exceeded":                agg.BoundHit,
			"unexplored_prefixes":           agg.QueueLeft,
			"aborted_paths":                 agg.Aborted,
			"assert_sites":                  agg.AssertSites,
			"assert_unknown":                agg.AssertUnk,
			"solver":                        map[string]interface{}{"binary": "z3 (/usr/bin/z3 4.8.12), one process per worker, push/pop", "queries": agg.Queries, "sat": agg.Sat, "unsat": agg.Unsat, "unknown": agg.Unknown, "time_s": agg.SolverS},
			"stubs":                         stubsFor(id),
			"known_findings_seen":           knownSeen,
			"jobs":                          perJob,
			"broken":                        oc.broken,
			"extra":                         extraEv,
		},
	}
	evb, _ := json.MarshalIndent(ev, "", " ")
	os.MkdirAll(filepath.Join(verifDir, "evidence"), 0o755)
	if err := os.WriteFile(filepath.Join(verifDir, "evidence", id+".json"), evb, 0o644); err != nil {
		fatal("write evidence: %v", err)
	}

	fmt.Printf("%s %s: jobs=%d paths=%d completed=%d obligations=%d discharged=%d queries=%d solver=%.1fs wall=%.1fs validated=%d aborted=%v\n",
		id, tier, len(jobs), agg.Paths, agg.Completed, agg.Asserts, agg.Discharged, agg.Queries, agg.SolverS, time.Since(t0).Seconds(), validated, agg.Aborted)
	for _, l := range oc.known {
		fmt.Println(l)
	}
	if len(oc.violations) > 0 {
		for _, l := range oc.violations {
			fmt.Println(l)
		}
		return 1
	}
	if len(oc.broken) > 0 {
		for _, l := range oc.broken {
			fmt.Println("CHECK-BROKEN:", l)
		}
		return 2
	}
	return 0
}

func max1(n int) int {
	if n < 1 {
		return 1
	}
	return n
}

func vecString(v []interp.VecEntry) string {
	var parts []string
	for _, e := range v {
		switch e.Kind {
		case "bool":
			if e.Val == "0" {
				parts = append(parts, "false")
			} else {
				parts = append(parts, "true")
			}
		case "float64":
			parts = append(parts, "f64bits:"+e.Val)
		default:
			parts = append(parts, e.Val)
		}
	}
	return "[" + strings.Join(parts, ",") + "]"
}

func runJobs(jobs []*Job) []*JobResult {
	results := make([]*JobResult, len(jobs))
	maxW := 12
	if v, err := strconv.Atoi(os.Getenv("VERIF_WORKERS")); err == nil && v > 0 {
		maxW = v
	}
	sem := make(chan struct{}, maxW)
	var wg sync.WaitGroup
	self, _ := os.Executable()
	for i, j := range jobs {
		wg.Add(1)
		go func(i int, j *Job) {
			defer wg.Done()
			sem <- struct{}{}
			defer func() { <-sem }()
			jb, _ := json.Marshal(j)
			cmd := exec.Command(self, "worker", string(jb))
			var out, errb bytes.Buffer
			cmd.Stdout = &out
			cmd.Stderr = &errb
			err := cmd.Run()
			var r JobResult
			lines := strings.Split(strings.TrimSpace(out.String()), "\n")
			if uerr := json.Unmarshal([]byte(lines[len(lines)-1]), &r); uerr != nil {
				results[i] = &JobResult{Job: j.Name, Error: fmt.Sprintf("worker failed: %v %v\n%s", err, uerr, tail(errb.String(), 2000))}
				return
			}
			results[i] = &r
		}(i, j)
	}
	wg.Wait()
	return results
}

// runReplay replays one stored counterexample file natively.
func runReplay(path string) int {
	b, err := os.ReadFile(path)
	if err != nil {
		fatal("%v", err)
	}
	// C20 / C17-name counterexamples are objects, not nondet vectors
	var obj map[string]interface{}
	if json.Unmarshal(b, &obj) == nil && obj["kind"] != nil {
		switch obj["kind"] {
		case "race":
			ok, out := c20Replay(fmt.Sprint(obj["thread_A"]), fmt.Sprint(obj["thread_B"]))
			fmt.Println(tail(out, 1500))
			if ok {
				fmt.Printf("VIOLATION property=C20 replay=%s\n", path)
				return 1
			}
			fmt.Println("no data race reported by go test -race")
			return 0
		case "trace-race":
			ok, out := c20TraceRaceReplay()
			fmt.Println(tail(out, 1500))
			if ok {
				fmt.Printf("VIOLATION property=C20 replay=%s\n", path)
				return 1
			}
			fmt.Println("no data race reported by go test -race")
			return 0
		case "publication":
			ok, out := c20PubReplay()
			fmt.Println(tail(out, 1500))
			if ok {
				fmt.Printf("VIOLATION property=C20 replay=%s\n", path)
				return 1
			}
			fmt.Println("every hash returned by GetSymHash was known to SymHash2Str in the stress test")
			return 0
		case "name":
			ok, out := c17ReplayName(fmt.Sprint(obj["name"]), fmt.Sprint(obj["rest"]))
			fmt.Printf("name %q: %s\n", obj["name"], out)
			if ok {
				fmt.Printf("VIOLATION property=C17 replay=%s\n", path)
				return 1
			}
			return 0
		}
	}
	var entries []replayEntry
	if err := json.Unmarshal(b, &entries); err != nil {
		fatal("%v", err)
	}
	res, err := nativeReplay(entries)
	if err != nil {
		fmt.Println(err)
		return 2
	}
	rc := 0
	for i, e := range entries {
		fmt.Printf("replay %s%v vector=%s -> %s\n", e.Func, e.Params, vecString(e.Vector), res[i])
		if res[i] != "OK" {
			fmt.Printf("VIOLATION property=%s replay=%s\n", e.Prop, path)
			rc = 1
		}
	}
	return rc
}
