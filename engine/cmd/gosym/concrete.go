package main

import (
	"fmt"
	"os"
	"time"
)

// runConcrete evaluates source strings in the engine (concrete mode) through the real
// parser bridge + evaluator, printing Inspect() of the result.
func runConcrete(srcs []string) int {
	l := load()
	eng := newEngine(l)
	entry := l.fn("zzverifw.Inspect")
	if _, err := eng.Call(entry.Pkg.Func("init")); err != nil {
		fmt.Fprintln(os.Stderr, "init:", err)
		return 2
	}
	t0 := time.Now()
	if _, err := eng.Call(l.fn("zzverifw.World")); err != nil {
		fmt.Fprintln(os.Stderr, "world:", err)
		return 2
	}
	fmt.Fprintf(os.Stderr, "world bootstrapped in %v\n", time.Since(t0))
	rc := 0
	for _, s := range srcs {
		t1 := time.Now()
		r, err := eng.Call(entry, s)
		if err != nil {
			fmt.Printf("%q => ERROR %v\n", s, err)
			rc = 1
			continue
		}
		fmt.Printf("%q => %v (%v)\n", s, r, time.Since(t1))
	}
	return rc
}

// tokenTable runs the repo's real parser.tokenTypes() in the engine and returns "id\tpattern" rows.
func tokenTable() []string {
	l := load()
	eng := newEngine(l)
	f := l.fn("parser.VH_C17_table")
	if _, err := eng.Call(f.Pkg.Func("init")); err != nil {
		fatal("init: %v", err)
	}
	r, err := eng.Call(f)
	if err != nil {
		fatal("token table: %v", err)
	}
	return eng.Strings(r)
}
