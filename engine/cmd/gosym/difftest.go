package main

import (
	"bytes"
	"encoding/json"
	"fmt"
	"os"
	"os/exec"
	"path/filepath"
	"regexp"
	"sort"
	"strconv"
)

// runDiff: concrete differential of the engine against the native build on the repo's
// own tests/*.pangaea scripts (translator validation, DESIGN.md 2.8).
func runDiff(limit int) int {
	files, _ := filepath.Glob(filepath.Join(repoDir, "tests", "*.pangaea"))
	sort.Strings(files)
	if limit > 0 && len(files) > limit {
		files = files[:limit]
	}
	var srcs []string
	for _, f := range files {
		b, _ := os.ReadFile(f)
		srcs = append(srcs, string(b))
	}
	// native
	tmp, _ := os.MkdirTemp("", "verif-diff-")
	defer os.RemoveAll(tmp)
	ov := map[string]string{}
	for virt, real := range overlayFiles() {
		ov[virt] = real
	}
	ov[filepath.Join(repoDir, "zzverifw", "zz_replay_test.go")] = filepath.Join(verifDir, "harness", "zzverifw", "zz_replay_test.go")
	ovb, _ := json.Marshal(map[string]interface{}{"Replace": ov})
	ovPath := filepath.Join(tmp, "overlay.json")
	os.WriteFile(ovPath, ovb, 0o644)
	sb, _ := json.Marshal(srcs)
	sPath := filepath.Join(tmp, "srcs.json")
	os.WriteFile(sPath, sb, 0o644)
	bin := filepath.Join(tmp, "replay.test")
	goenv := append(os.Environ(), "VERIF_INSPECT_FILE="+sPath, "GOFLAGS=-mod=mod", "GOPROXY=off", "GOSUMDB=off", "GOTOOLCHAIN=local")
	build := exec.Command("go", "test", "-c", "-vet=off", "-overlay", ovPath, "-o", bin, "./zzverifw")
	build.Dir = repoDir
	build.Env = goenv
	if bo, err := build.CombinedOutput(); err != nil {
		fmt.Printf("native build failed: %v\n%s", err, bo)
		return 2
	}
	cmd := exec.Command(bin, "-test.run", "TestVerifInspect", "-test.v")
	cmd.Dir = filepath.Join(repoDir, "tests")
	cmd.Env = goenv
	var out bytes.Buffer
	cmd.Stdout = &out
	cmd.Stderr = &out
	cmd.Run()
	native := make([]string, len(srcs))
	re := regexp.MustCompile(`(?m)^INSPECT (\d+) (".*")$`)
	for _, m := range re.FindAllStringSubmatch(out.String(), -1) {
		i, _ := strconv.Atoi(m[1])
		s, _ := strconv.Unquote(m[2])
		native[i] = s
	}
	// engine
	l := load()
	eng := newEngine(l)
	entry := l.fn("zzverifw.Inspect")
	if _, err := eng.Call(entry.Pkg.Func("init")); err != nil {
		fmt.Println("init:", err)
		return 2
	}
	if _, err := eng.Call(l.fn("zzverifw.World")); err != nil {
		fmt.Println("world:", err)
		return 2
	}
	agree, differ, unsupported := 0, 0, 0
	for i, s := range srcs {
		var got string
		func() {
			defer func() {
				if r := recover(); r != nil {
					got = fmt.Sprintf("ENGINE-UNSUPPORTED: %v", r)
				}
			}()
			r, err := eng.Call(entry, s)
			if err != nil {
				got = "ENGINE-ERROR: " + err.Error()
				return
			}
			got, _ = r.(string)
		}()
		switch {
		case got == native[i]:
			agree++
		case len(got) > 7 && got[:7] == "ENGINE-":
			unsupported++
			fmt.Printf("UNSUPPORTED %s: %.160s\n", filepath.Base(files[i]), got)
		default:
			differ++
			fmt.Printf("DIFFER %s:\n  native: %.200s\n  engine: %.200s\n", filepath.Base(files[i]), native[i], got)
		}
	}
	fmt.Printf("differential: %d scripts, agree=%d differ=%d engine-unsupported=%d\n", len(srcs), agree, differ, unsupported)
	if differ > 0 {
		return 1
	}
	return 0
}
