package main

import (
	"fmt"
	"sort"
	"strings"

	"gosym/interp"
)

// Per-property job tables: which harnesses run, with which concrete parameters and bounds.

func (j *Job) optionalSite(s string) bool {
	for _, o := range j.OptionalSites {
		if o == s {
			return true
		}
	}
	return false
}

func (j *Job) witnesses() int {
	if j.Witnesses > 0 {
		return j.Witnesses
	}
	return 3
}

func ints(lo, hi int) [][]int {
	var out [][]int
	for i := lo; i <= hi; i++ {
		out = append(out, []int{i})
	}
	return out
}

func pairs(as []int, lo, hi int) [][]int {
	var out [][]int
	for _, a := range as {
		for i := lo; i <= hi; i++ {
			out = append(out, []int{a, i})
		}
	}
	return out
}

// split turns one job with many parameter tuples into one job per tuple (parallelism).
func split(j Job) []*Job {
	var out []*Job
	for _, p := range j.Params {
		c := j
		c.Params = [][]int{p}
		c.Name = fmt.Sprintf("%s%v", j.Name, p)
		out = append(out, &c)
	}
	return out
}

func jobsFor(id, tier string) []*Job {
	thorough := tier == "thorough"
	var jobs []*Job
	add := func(js ...*Job) { jobs = append(jobs, js...) }
	base := Job{MaxPaths: 200000, MaxSteps: 5000000, TimeoutS: 240}
	if thorough {
		base.TimeoutS = 3000
		base.MaxPaths = 5000000
	}
	mk := func(name, fn string, params [][]int) Job {
		j := base
		j.Name, j.Func, j.Params = name, fn, params
		return j
	}
	wmk := func(name, fn string, params [][]int) Job {
		j := mk(name, fn, params)
		j.Setup = "zzverifw.World"
		return j
	}
	_ = wmk
	switch id {
	case "C01":
		var bp [][]int
		for sh := 0; sh < 16; sh++ {
			bp = append(bp, []int{sh, 16, 0, 1}, []int{sh, 16, 1, 1}) // with the consumer step
		}
		shards2 := 24
		for sh := 0; sh < shards2; sh++ {
			if thorough || sh%4 == 0 {
				bp = append(bp, []int{sh, shards2, 2, 0})
			}
		}
		// every built-in with two arguments from the reduced boundary shape set (16 x 16), in every tier
		var qp [][]int
		for sh := 0; sh < shards2; sh++ {
			qp = append(qp, []int{sh, shards2, 2, 3})
		}
		qj := wmk("boundary2", "zzverifw.H_C01_builtin", qp)
		qj.TimeoutS = 240
		qj.SolverMs = 2000
		qj.MaxSteps = 1000000
		add(split(qj)...)
		bj := wmk("builtin", "zzverifw.H_C01_builtin", bp)
		if !thorough {
			bj.TimeoutS = 60
			bj.SolverMs = 2000
			bj.MaxSteps = 1000000
		}
		add(split(bj)...)
		// every indexing built-in (*.at) with two arguments, in every tier: receiver any shape,
		// index any shape incl. [i], [(a:b:c)], (a:b:c) with symbolic payloads (explored first)
		var ip [][]int
		for sh := 0; sh < 8; sh++ {
			ip = append(ip, []int{sh, 8, 2, 2})
		}
		ij := wmk("indexers", "zzverifw.H_C01_builtin", ip)
		ij.TimeoutS = 240
		ij.SolverMs = 2000
		ij.MaxSteps = 1000000
		add(split(ij)...)
		// REPL sessions through the real StartREPL (line pool generated from /repo/runscript)
		var rp [][]int
		for sh := 0; sh < 8; sh++ {
			rp = append(rp, []int{sh, 8})
		}
		rj := wmk("repl", "zzverifw.H_C01_repl", rp)
		rj.TimeoutS = 300
		rj.MaxSteps = 20000000
		add(split(rj)...)
		var sp [][]int
		for sh := 0; sh < 6; sh++ {
			sp = append(sp, []int{sh, 6})
		}
		sj := wmk("singletons", "zzverifw.H_C01_singletons", sp)
		sj.MaxSteps = 1000000
		add(split(sj)...)
	case "C17":
		lexOv := map[string]string{"(*github.com/Syuparn/pangaea/parser.Lexer).Lex": "parser.vLex"}
		dp := [][]int{{0, 0, 2}, {0, 1, 2}, {2, 0, 2}, {2, 1, 2}, {3, 0, 1}}
		for sh := 0; sh < 6; sh++ {
			dp = append(dp, []int{1, sh, 6}) // hex: 22 first digits in 6 shards
		}
		sx := mk("strctx", "zzverifw.H_C17_strctx", nil) // real lexer: no token feed
		add(&sx)
		nx := mk("namectx", "zzverifw.H_C17_namectx", nil) // real lexer
		add(&nx)
		for _, j := range []Job{mk("int", "zzverifw.H_C17_int", ints(0, 3)), mk("digits", "zzverifw.H_C17_digits", dp), mk("expint", "zzverifw.H_C17_expint", nil), mk("str", "zzverifw.H_C17_str", nil), mk("float", "zzverifw.H_C17_float", nil)} {
			j.Overrides = lexOv
			if len(j.Params) > 0 {
				add(split(j)...)
			} else {
				jj := j
				add(&jj)
			}
		}
	case "C16":
		reads := 4
		if thorough {
			reads = 6
		}
		var cp [][]int
		for _, ch := range []int{0, 1} {
			for _, mt := range []int{1024, 6000} {
				for _, dl := range []int{0, 1} {
					r := reads
					if ch == 1 && !thorough {
						r = 3
					}
					cp = append(cp, []int{ch, mt, dl, r})
				}
			}
		}
		sc := mk("scan", "zzverifw.H_C16_scan", cp)
		add(split(mk("chunks", "zzverifw.H_C16_chunks", ints(0, 3)))...)
		add(split(mk("layout", "zzverifw.H_C16_layout", ints(0, 18)))...)
		sc.Overrides = map[string]string{"github.com/macrat/simplexer.shiftPos": "github.com/macrat/simplexer.vShiftPos", "(*github.com/macrat/simplexer.Lexer).makeError": "github.com/macrat/simplexer.vMakeError", "?(*github.com/macrat/simplexer.Lexer).trimRightNullStrings": "github.com/macrat/simplexer.vTrim"}
		add(split(sc)...)
	case "C02":
		lexOv := map[string]string{"(*github.com/Syuparn/pangaea/parser.Lexer).Lex": "parser.vLex"}
		var ip [][]int
		ip = append(ip, []int{2, -1, 0}) // all pairs, identifier operands
		ip = append(ip, []int{2, -1, 1}) // all pairs, operand shapes solver-chosen? (23^2 x 9^3) too many: sharded below
		ip = ip[:1]
		for f := 0; f < 23; f++ {
			ip = append(ip, []int{3, f, 0}) // all triples, first operator per shard
		}
		if thorough {
			for f := 0; f < 23; f++ {
				ip = append(ip, []int{2, f, 1}) // pairs, every operand shape in all three positions
			}
		} else {
			for f := 0; f < 23; f += 4 {
				ip = append(ip, []int{2, f, 2}) // pairs, every operand shape in the middle position
			}
		}
		ij := mk("infix", "zzverifw.H_C02_infix", ip)
		ij.Overrides = lexOv
		add(split(ij)...)
		mj := mk("mixed", "zzverifw.H_C02_mixed", ints(0, 27))
		mj.Overrides = lexOv
		add(split(mj)...)
	case "C19":
		var fp [][]int
		for hh := 0; hh < 28; hh++ {
			if thorough {
				fp = append(fp, []int{hh, -1}) // every later program
			} else {
				fp = append(fp, []int{hh, 1}) // later program: the same one, `_`, Either.A or a plain raise
			}
		}
		add(split(wmk("frame", "zzverifw.H_C19_frame", fp))...)
		var bp [][]int
		for sh := 0; sh < 9; sh++ {
			bp = append(bp, []int{sh, 9})
		}
		add(split(wmk("builtins", "zzverifw.H_C19_builtins", bp))...)
		rtj := mk("runtest", "zzverifw.H_C19_runtest", nil)
		add(&rtj)
	case "C06":
		var sp [][]int
		for r := 0; r < 12; r++ {
			for sh := 0; sh < 3; sh++ {
				sp = append(sp, []int{r, sh, 3})
			}
		}
		add(split(wmk("step", "zzverifw.H_C06_step", sp))...)
		var pp [][]int
		for sh := 0; sh < 12; sh++ {
			pp = append(pp, []int{sh, 12, 0})
		}
		if thorough {
			for sh := 0; sh < 12; sh++ {
				pp = append(pp, []int{sh, 12, 1}) // symbolic payloads
			}
		}
		add(split(wmk("pair", "zzverifw.H_C06_pair", pp))...)
		var cp [][]int
		for sh := 0; sh < 13; sh++ {
			cp = append(cp, []int{sh, 13, 0})
		}
		add(split(wmk("constructs", "zzverifw.H_C06_constructs", cp))...)
		add(split(wmk("capture", "zzverifw.H_C06_capture", ints(0, 14)))...)
	case "C03":
		var bp [][]int
		for np := 0; np <= 3; np++ {
			for nk := 0; nk <= 2; nk++ {
				bp = append(bp, []int{np, nk})
			}
		}
		add(split(wmk("bind", "zzverifw.H_C03_bind", bp))...)
		add(split(wmk("scope", "zzverifw.H_C03_scope", ints(0, 21)))...)
	case "C04":
		nmax := 2
		if thorough {
			nmax = 3
		}
		var lp, rp, scp [][]int
		for nk := 0; nk <= 1; nk++ { // nk = 1: nil values are made with Nil.bear({}).new
			for n := 1; n <= nmax; n++ {
				if nk == 1 && n != 2 && !thorough {
					continue
				}
				for c := 0; c < 4; c++ {
					lp = append(lp, []int{n, c, 0, nk})
				}
				for c := 0; c < 3; c++ {
					rp = append(rp, []int{n, c, nk})
				}
			}
			for c := 0; c < 4; c++ {
				scp = append(scp, []int{c, nk})
			}
		}
		lp = append(lp, []int{2, 0, 1, 0}, []int{2, 2, 1, 0})
		add(split(wmk("list", "zzverifw.H_C04_list", lp))...)
		add(split(wmk("reduce", "zzverifw.H_C04_reduce", rp))...)
		add(split(wmk("scalar", "zzverifw.H_C04_scalar", scp))...)
		add(split(wmk("recv", "zzverifw.H_C04_recv", ints(0, 6)))...)
		dg := wmk("digest", "zzverifw.H_C04_digest", nil)
		add(&dg)
	case "C09":
		op := [][]int{{1, 0}, {2, 0}, {3, 0}, {2, 2}, {1, 2}}
		mp := [][]int{{1, 0, 0, -1}, {2, 0, 0, -1}, {1, 1, 0, -1}, {0, 1, 1, -1}}
		for k := 0; k < 6; k++ {
			mp = append(mp, []int{1, 1, 1, k}) // three keys: sharded by the kind of the first key
		}
		if thorough {
			op = append(op, []int{3, 2}, []int{4, 0})
			mp = append(mp, []int{0, 2, 1, -1})
			for k := 0; k < 6; k++ {
				mp = append(mp, []int{3, 0, 0, k}, []int{2, 1, 0, k}, []int{2, 2, 0, k}, []int{1, 1, 2, k})
			}
		}
		add(split(wmk("obj", "zzverifw.H_C09_obj", op))...)
		add(split(wmk("map", "zzverifw.H_C09_map", mp))...)
	case "C05":
		var ps [][]int
		for c := 0; c < 32; c++ { // 2 objects, names x and y, all 4 property kinds, first object sharded
			ps = append(ps, []int{2, 4, c, 2, 0})
		}
		for c := 0; c < 32; c++ { // the same with a public and a private name (x, _y)
			ps = append(ps, []int{2, 4, c, 3, 0})
		}
		if thorough {
			for c := 0; c < 32; c++ { // 3 objects, two names, all kinds
				ps = append(ps, []int{3, 4, c, 2, 0})
			}
		} else {
			for c := 0; c < 6; c++ { // 3 objects, one name, kinds absent/value/function
				ps = append(ps, []int{3, 3, c, 1, 0})
			}
		}
		for c := 0; c < 6; c++ { // 2 objects whose root is a child of a concrete str / arr / int value (solver choice)
			ps = append(ps, []int{2, 3, c, 1, 1})
		}
		add(split(wmk("forest", "zzverifw.H_C05_forest", ps))...)
	case "C14":
		lmax := 1
		if thorough {
			lmax = 2
		}
		var ps [][]int
		for l := 1; l <= lmax+1; l++ {
			narrow := 0
			if l == lmax+1 {
				narrow = 1 // the longest history runs with narrower value ranges
			}
			for i := 0; i < 2; i++ {
				for op := 0; op < 5; op++ {
					if l >= 2 && op >= 3 {
						// the heaviest shards (a second symbolic start value): split by the iterator of the second operation
						ps = append(ps, []int{l, i, op, narrow, 0, 0}, []int{l, i, op, narrow, 0, 1})
					} else {
						ps = append(ps, []int{l, i, op, narrow, 0, -1})
					}
					if narrow == 1 && (op == 1 || op == 2 || thorough) {
						ps = append(ps, []int{l, i, op, narrow, 1, -1}) // family without declared parameters
					}
					if i == 0 && op <= 2 && (l == 1 || thorough) {
						ps = append(ps, []int{l, i, op, 1, 3, -1}) // family with recur written before the yield (narrow ranges)
					}
					if i == 0 && op <= 2 && (l == 1 || thorough) {
						// family whose first yield gives nil for one argument value (narrow ranges in quick)
						nr := narrow
						if !thorough {
							nr = 1
						}
						ps = append(ps, []int{l, i, op, nr, 2, -1})
					}
				}
			}
		}
		add(split(wmk("iter", "zzverifw.H_C14_iter", ps))...)
		cj := wmk("capture", "zzverifw.H_C14_capture", nil)
		add(&cj)
	case "C13":
		kmax := 2
		if thorough {
			kmax = 3
		}
		add(split(wmk("try", "zzverifw.H_C13_try", ints(1, kmax)))...)
		ru := wmk("reuse", "zzverifw.H_C13_reuse", nil)
		add(&ru)
		ne := wmk("nested", "zzverifw.H_C13_nested", nil)
		add(&ne)
		pj := wmk("propstep", "zzverifw.H_C13_propstep", nil)
		add(&pj)
	case "C18":
		var eqp [][]int
		for a := 0; a < 14; a++ {
			eqp = append(eqp, []int{a, a})
		}
		// cross-kind pairs for symmetry
		for _, p := range [][]int{{0, 1}, {0, 3}, {0, 4}, {1, 4}, {2, 5}, {0, 2}, {6, 0}, {7, 8}, {10, 0}, {10, 4}, {12, 13}, {3, 4}, {9, 6}, {11, 7}} {
			eqp = append(eqp, p)
		}
		if thorough {
			eqp = nil
			for a := 0; a < 14; a++ {
				for b := 0; b < 14; b++ {
					eqp = append(eqp, []int{a, b})
				}
			}
		}
		add(split(wmk("eq", "zzverifw.H_C18_eq", eqp))...)
		add(split(wmk("ord", "zzverifw.H_C18_ord", ints(0, 5)))...)
		add(split(wmk("trans", "zzverifw.H_C18_trans", ints(0, 5)))...)
	case "C08":
		o := wmk("order", "zzverifw.H_C08_order", ints(0, 50))
		o.MapOrder = 1
		o.ReplayRepeat = 400
		if thorough {
			o.MapOrder = 2
		}
		add(split(o)...)
	case "C07":
		add(split(wmk("inject", "zzverifw.H_C07_inject", ints(0, 46)))...)
	case "C15":
		nmax := 3
		if thorough {
			nmax = 4
		}
		ps := [][]int{{1, -1}, {2, -1}}
		for n := 3; n <= nmax; n++ {
			for k := 0; k < 7; k++ {
				ps = append(ps, []int{n, k})
			}
		}
		add(split(wmk("defer", "zzverifw.H_C15_defer", ps))...)
	case "C12":
		add(split(wmk("truth", "zzverifw.H_C12_truth", ints(0, 26)))...)
	case "C10":
		im := mk("bin", "zzverifw.H_C10_bin", ints(0, 4)) // + - * // % : Int theory with explicit wrap
		im.IntMode = true
		im.SolverMs = 3000
		add(split(im)...)
		add(split(mk("bin", "zzverifw.H_C10_bin", ints(5, 6)))...) // <=> and / : bit-vectors + FP
		ng := mk("neg", "zzverifw.H_C10_neg", nil)
		ng.IntMode = true
		add(&ng)
		exps := append(ints(0, 16), [][]int{{31}, {32}, {39}, {40}, {62}, {63}}...)
		if thorough {
			exps = ints(0, 63)
		}
		pw := mk("pow", "zzverifw.H_C10_pow", exps)
		pw.IntMode = true
		pw.SolverMs = 3000
		add(split(pw)...)
		ev := wmk("eval", "zzverifw.H_C10_eval", ints(0, 9))
		ev.IntMode = true
		ev.SolverMs = 3000
		add(split(ev)...)
		pool := mk("powpool", "zzverifw.H_C10_pow_pool", [][]int{{2}, {3}, {5}, {9}, {19}, {35}, {62}})
		pool.IntMode = true
		add(split(pool)...)
	case "C11":
		nmax := 3
		if thorough {
			nmax = 5
		}
		add(split(mk("arr", "zzverifw.H_C11_arr", ints(0, nmax)))...)
		add(split(mk("str", "zzverifw.H_C11_str", pairs([]int{0, 1}, 0, nmax)))...)
		add(split(mk("idx", "zzverifw.H_C11_idx", pairs([]int{0, 1, 2}, 0, nmax)))...)
	}
	return jobs
}

func assumptionsFor(id string) []string {
	common := []string{
		"go/ssa (x/tools v0.29.0) faithfully represents the Go source of /repo; the forked x/tools SSA interpreter implements Go semantics for the ~43 instruction kinds used",
		"z3 4.8.12 answers are correct (thorough tier cross-checks logged queries on z3 5.1.0 and cvc5 1.0)",
		"harness oracles written from the property statement and docs (DESIGN.md Appendix B)",
	}
	switch id {
	case "C01":
		return append(common, "built-ins are called directly through their Fn with (env, empty kwargs, args...) as the evaluator does; the list of built-ins is discovered at run time from every object named in the constants environment", "scalar arguments are symbolic (any int64, any float64 bit pattern) for arity 0..1 and boundary constants for arity 2; other argument shapes are concrete values of every kind (26 shapes)", "skipped: Kernel.import / invite! / exit, Str.eval / evalEnv (process, file and nested-evaluation I/O); IO is injected with an exhausted standard input and a discarded output", "paths on which a symbolic value reaches a concrete-only intrinsic (formatting, strings.Repeat, JSON) are abandoned as unsupported and counted")
	case "C17":
		return append(common, "literals: one-token programs through the real yyParse actions (token feed in the engine, real lexer natively); spellings are solver choices from pools built around the representability boundaries; oracle = positional value computed by the harness (ints), whole-literal correctly rounded conversion (floats), the documented escapes (strings)", "names: see coverage.extra.names_assumptions (token table executed from the repo, regexps translated to SMT regular languages)")
	case "C16":
		return append(common, "the lexer buffer is a LenStr: its content is abstracted away and its length is a symbolic term (len, +, slicing, string(buf[:n]) are length arithmetic)", "token types are contract stubs: the true token at the current position has symbolic length T; a greedy class (identifier, comment, blank-line run) matches min(T, buffered) bytes, a delimited class (string, raw string) matches only when completely buffered; earlier and later token types do not match", "reader stub: returns a symbolic count c with 1 <= c <= min(len(p), remaining) (chunked) or exactly that minimum (full reader), then io.EOF", "stubs in the engine only: shiftPos (position bookkeeping) and makeError (wording of the error message); strings.LastIndex on the abstract buffer answers not-found", "one Scan from an arbitrary state satisfying the invariant buf = prefix of the unread input: an inductive step, so the length of the file is unbounded")
	case "C02":
		return append(common, "in the engine (*Lexer).Lex is replaced by a token feed (token ids from the grammar's own constants); natively the same words are rendered to source text and lexed by the real regex lexer — every natively replayed path cross-checks the token model", "oracle: the documented table of docs/reference/operators.md (not the %left lines): the expression as written and the expression with the implied parentheses inserted must print the same AST")
	case "C19":
		return append(common, "inductive step: every value reachable from the shared constants environment (and the shared NotImplementedErr) is fingerprinted; one evaluation in a fresh enclosed scope must leave it unchanged, and a later program must print the same value / error / stack trace as before the history — by induction this covers histories of any length", "os.Open is served from harness-provided virtual files in the engine (real temporary files in the native replay); writes to stderr are no-op stubs", "symbol tables only grow and are excluded from the fingerprint (C20); what is asserted of them is that every object they hand out is a plain str (prototype Str, the registered text)")
	case "C06":
		return append(common, "fingerprint = deep structure of every live value (element / pair / bound identities by Go pointer, scalar payloads, key lists, prototype pointer), taken when the value is created and compared after every operation", "operations are called through Obj.callProp(receiver, name, argument); I/O and evaluation properties (p, puts, print, import, invite!, exit, assert*, eval, evalEnv, decJSON, S, repr, tap, try, then) are not operations on values and are skipped", "native Go slices inside the engine have the same 16-byte element size as []object.PanObject, so append growth and spare capacity are those of the real runtime")
	case "C03":
		return append(common, "binding oracle: parameter i <- argument i or nil; keyword <- passed value or default; \\0 = the arguments (padded with nil up to the parameter count, as the implementation documents), \\_ = exactly the passed keywords, \\N / \\ / \\name defined only for what was received", "scoping scenarios are fixed programs with two symbolic int inputs; expected values are closed-form")
	case "C04":
		return append(common, "elements are children of a prototype whose method act / comb behaves by data: raises ValueErr for a negative payload, returns nil for 0, a value otherwise — so value / nil / raise at every element position is a solver choice; elements may also be nil (lonely chains)", "reference = DESIGN.md Appendix B (C04); the lonely reduce chain is excluded as the statement says")
	case "C09":
		return append(common, "reference = ordered dictionary in the harness (first occurrence wins; scalar keys distinct by type + value, array keys by ==; scalar keys iterate first in insertion order)", "float keys exclude NaN and -0.0 (%{0.0: 1, -0.0: 2} keeps both keys while 0.0 == -0.0; the statement does not settle that case, so it is outside the domain rather than a finding)")
	case "C05":
		return append(common, "every object carries a unique id property, so structural == (used by ancestors/kindOf?) coincides with identity", "forest model (parent, defined kinds, _missing) kept by the harness; expected raw property values are read from the definer's own Pairs map")
	case "C14":
		return append(common, "iterator families: <{|n| yield n * 10 + 1 if n < lim; recur(n + d)}>, a body whose first yield gives nil for one argument value z in [-3,5] (quick: z in [-1,2] with the narrow ranges) and is followed by a second yield and a non-nil last statement (<{|n| yield (nil if n == z else n * 10 + 1) if n < lim; recur(n + d); yield 77; n * 10 + 7}>), a body with recur written before the yield (<{|n| recur(n + d); yield n * 10 + 1 if n < lim}>), bodies whose yielded value captures the step's arguments in a closure (H_C14_capture, lim in [0,4], d in [1,2], start in [-1,2]), and the first body written without declared parameters (<{yield \\ * 10 + 1 if \\ < lim; recur(\\ + d)}>), with lim in [-2,5], d in [1,3], start values in [-3,5] — all symbolic within those ranges", "reference = per-iterator state machine in the harness (DESIGN.md 5.14)")
	case "C13":
		return append(common, "steps are methods of a receiver object, literal calls, and operator calls written in chain form (.+(n)); step names are ones the Either wrapper does not define itself (DESIGN.md Appendix B, C13 domain note) — names the wrapper's own prototype chain answers (A, val, ==, S, p, keys ...) never reach the _missing proxy and are outside the domain", "failures are injected inside the callee (step(i) raises iff i == K); a raise during argument evaluation happens before the call and is not a failure of the step")
	case "C18":
		return append(common, "laws are asserted through parsed Pangaea programs (x == y, x < y, x <=> y, [x, y].max ...) in the bootstrapped world", "ordered kinds: int, float, str, Int.bear(...).new(n), booleans, Str.bear(...).new(s); equality kinds additionally: arrays, objects and bear children, maps, ranges, nil, functions, Either values, error values (as delivered by .err)")
	case "C08":
		return append(common, "Go map iteration order is a solver choice: every range over a Go map with 2..4 entries executed while the program under test runs iterates in a solver-chosen order (quick: all rotations and the reversal; thorough: all permutations)", "audited order-insensitive loops iterate in insertion order: "+insensitiveList(), "expected results are the documented ones (first occurrence wins, sorted object names, map insertion order); identical expectation on every order = reproducibility", "native replay of an order-dependent counterexample repeats the harness 400 times in one process (Go randomises the start of each map range)")
	case "C07":
		return append(common, "fault injection: the built-in step(i) records i and raises the chosen error kind iff i == K, K a symbolic int in [0, m]", "oracle is order-agnostic (nothing evaluated after the failing slot, each slot at most once, same kind and message); source order itself is C08")
	case "C15":
		return append(common, "reference model = DESIGN.md Appendix B (C15); the value of a function whose last statement is a defer is not asserted (statement is silent)", "programs are generated by the harness from solver-chosen statement kinds, parsed natively (parser bridge) and evaluated by the real evaluator in the engine")
	case "C12":
		return append(common, "truth oracle for built-in kinds is the statement's list of zero values (0, 0.0, \"\", [], {}, %{}, nil, false); for the user-defined B it is the value B returns", "programs are parsed natively (parser.Parse bridge) and evaluated by the real evaluator in the bootstrapped world inside the engine")
	case "C10":
		return append(common,
			"Int-theory encoding: int64 values are mathematical integers kept in range by explicit wrap-around; Go's truncated / and % are fresh q, r constrained by a = q*b + r, |r| < |b|, sign(r) in {0, sign(a)}",
			"engine lemmas added for the idiom `c := x*y; c/y != x` (both true in arithmetic for y != 0): x*y in range => c/y == x, c%y == 0; x*y out of range => c/y != x; and: an in-range product is unchanged by wrap-around",
			"queries the incremental z3 4.8.12 core gives up on are re-asked one-shot to z3 5.1.0 and cvc5 1.0 (non-linear integer arithmetic); unknown stays inconclusive",
			"** is checked per concrete exponent; the set of bases whose power fits is the interval computed concretely by the harness")
	case "C11":
		return append(common, "bounds are *PanInt or nil (other bound types are outside the statement)", "sequence lengths as listed in bounds; elements distinguishable by pointer identity")
	}
	return common
}

func boundsFor(id, tier string, jobs []*Job) map[string]interface{} {
	b := map[string]interface{}{"tier": tier}
	switch id {
	case "C01":
		b["builtins"] = "every built-in function object reachable from the constants environment (about 290)"
		if tier == "thorough" {
			b["arity"] = "0, 1 and 2 arguments for every built-in"
		} else {
			b["arity"] = "0 and 1 argument for every built-in; 2 arguments for a quarter of them (6 of 24 shards)"
		}
		b["repl"] = "sessions of three lines through the real StartREPL: first line any line of the generated pool (every string literal of /repo/runscript - the REPL's commands and prompts - as written, upper / lower / capitalised, with leading / trailing blanks, truncated, doubled, with a trailing ;) or a program; second line a command, a miscased command, a program, an unfinished program or empty; third line 1 + 1 or a program reading standard input after it is exhausted (<>.S, <>.p, interpolation, <>.uc, iteration)"
		b["two_arguments_boundary"] = "EVERY built-in with two arguments drawn from a reduced boundary set of 16 shapes (nil, empty and small str / arr / obj / map, range, function, 0, -1, 7, the smallest int64, 0.0, NaN, true): all 256 combinations per built-in, not time-boxed"
		b["indexers"] = "every built-in named at (what recv[index] calls) with receiver any shape and index any shape, incl. [i] with i any int64 and [(a:b:c)] / (a:b:c) with a, b nil or any int64 and c nil, 1, -1, 2, -3 or any int64"
		b["argument_shapes"] = "symbolic int, symbolic float, nil, bool, strs, arrays, objects, maps, ranges, function, iterator, Either values, error value, prototypes, bear children, symbol, char (solver choice per position)"
		b["second_step"] = "for arity 0..1 every non-error result is then printed, compared, unpacked with * and ** into calls and literals, iterated and interpolated (14 consumers)"
		b["singletons"] = "every name of the constants environment x 15 generic probes (printing, lookup, comparison, bear, which, try)"
	case "C17":
		b["int_literals"] = "decimal / hex / octal / binary: 7..16 spellings each (underscores, leading zeros, prefix case, values at and beyond 2^63-1 and 2^64-1); plus EVERY literal of 1..2 digits over the full digit alphabet of each base (hex in both letter cases), optionally followed by 0 / the largest digit / _1, with either prefix case"
		b["exponent_ints"] = "17 mantissas (incl. leading zeros: 010, 0_10, 09, 0012, 0100, 0, 00, 08) x 13 exponents (incl. 1001 and -1001) x e/E"
		b["floats"] = "14 spellings incl. subnormal, max, overflow, double-rounding-sensitive decimals"
		b["strings"] = "17 bodies: documented escapes, multi-byte text, undefined escapes"
		b["names_in_context"] = "36 names that begin with a reserved word (if else return raise yield defer x 6 tails) in 8 contexts, among them the first token of a line after a line break, a comment line, indentation, inside a function body, as an object key and after an if-expression; real lexer and parser; the AST must equal the one of a neutral name"
		b["strings_in_context"] = "13 bodies (incl. ones ending in an escaped backslash or an escaped quote) x 7 contexts in which further tokens follow on the same line (another string, a symbol, brackets, a call, an object literal), through the real lexer and parser"
		if tier == "thorough" {
			b["names"] = "all names of length <= 12"
		} else {
			b["names"] = "all names of length <= 8"
		}
	case "C16":
		b["state"] = "buffered bytes 0..4096, unread input 0..8192, run of blanks before the token 0..3000, token length 1..1024 and 1..6000 (each symbolic)"
		b["reader"] = "full reader and arbitrary short reads; at content level the last bytes arrive either before or together with io.EOF (solver choice)"
		b["layout"] = "19 templates with 1..3 places where a line break is written (after commas and opening brackets of literals and calls, between statements, in function / method / iterator bodies, before every multi-line chain link |. |@ |$ |&. |~. |=. |&@ |~@ |=@ |~$); each place gets a solver choice of 12 layout runs (blank lines, lines of spaces / tabs, comment lines at column 0 and indented, trailing blanks, indentation before the next token); real lexer and parser; AST must print as with plain line breaks"
		b["content_level"] = "4 concrete sources with multi-byte characters in strings, raw strings, comments, char literals and interpolations, lexed by the real token table through a reader with a solver-chosen chunk size from {1, 2, 3, 5, 7, 16, 2048}; the token texts must equal those of a single full read"
		if tier == "thorough" {
			b["reads_per_scan"] = "at most 6"
		} else {
			b["reads_per_scan"] = "at most 4 (3 for short reads); paths needing more reads are cut by an assumption and counted"
		}
	case "C02":
		b["infix"] = "all ordered pairs and all ordered triples of the 23 infix operators (operator tokens are solver choices)"
		if tier == "thorough" {
			b["operand_shapes"] = "pairs with every operand shape (identifier, int literal, call, index, grouped, prefixed with - ! + /~, chained, chained call) in all three positions"
		} else {
			b["operand_shapes"] = "pairs with every operand shape (identifier, int literal, call, index, grouped, prefixed with - ! + /~, chained, chained call) in the middle position, for 6 first operators"
		}
		b["mixed_forms"] = "28 templates (the prefix operator in a template is a solver choice of - + ! /~): prefix vs chain / infix / **, chain vs infix, indexing and calling vs prefix, calls and indexes as operands, := += => (right-to-left, relative levels), return / raise, if / if-else with infix conditions and branches, arguments and index expressions — infix slots are solver choices (third slot: one operator per level)"
	case "C19":
		b["builtins_as_operands"] = "history = one of the 58 call-site / literal constructs of C06 (keyword and positional unpacking, ** merging, bear / bro / patch, concatenation, interpolation, chains, digest, equality) applied to the SHARED built-in objects (Int, Str, Obj, Arr, Nil, Map, Float, Func, BaseObj, Iterable, Comparable) under 3 bindings (solver choice); afterwards the whole constants environment is fingerprint-equal and a fresh program sees the same property lists"
		b["program_family"] = "27 programs (incl. hashing a descendant of Str under a fresh text, and a later evalEnv that gets its key objects from the symbol table; invite! / import of a standard module and a later program naming one of its variables; three that run built-in iterators past their end and four that reach the abstract Either props by indexing, at and callProp): value, raise, nested raise, the variable _, abstract Either props, NoPropErr, shadowing built-in names, failing chain, bear, try capturing _, raising defer, abandon, interpolation"
		if tier == "thorough" {
			b["pairs"] = "every (history program, later program) pair: 14 x 14, later program a solver choice"
		} else {
			b["pairs"] = "every history program x later program in {same program, _, Either.A, plain raise, exhausted array iterator, exhausted str iterator after withI, Either['A], the module variable message, evalEnv keys} (solver choice)"
		}
		b["runtest"] = "3 first files x 3 second files through the real setup + runTest"
	case "C06":
		b["pool"] = "12 live values: array built by a literal (spare capacity), str, object with nested array, map with array key, range, int, float, function, bear child, nested array, a range whose step is a child of an int, an array whose elements are children of an int / str / array"
		b["single_step"] = "receiver: each pool value; property: EVERY name reachable from its prototype chain (solver choice); argument: none or one of 9 pool values (solver choice)"
		b["constructs"] = "two of 58 call-site / literal constructs in sequence (keyword and positional unpacking, ** merging of objects and maps, bear / bro / patch, concatenation, interpolation, chains, digest, variadic parameters), all 58 x 58 ordered pairs"
		b["captured_values"] = "13 chain programs (list, strict-list, reduce and thoughtful reduce chains in literal and variable-call form over arrays, objects, maps and an iterator) in which each step keeps the value it received - in the result or in a closure - and the kept values are read back at the end; payloads any int in (1, 100)"
		b["two_steps"] = "first any Arr property on the literal array with argument [7] / 2 / function; then one of 8 array-building properties (+ * append prepend zip chain map rev) on the same receiver or on the first result; payloads concrete (quick) and symbolic ints in (1, 100) (thorough)"
	case "C03":
		b["binding"] = "0..3 positional and 0..2 keyword parameters (all 12 signatures) x 0..4 positional arguments (tail optionally as *[...]) x each of k1, _k2 (a private name) and one keyword the function does not declare (named zz, p1 like the first positional parameter, or g like the outer variable the body reads: solver choice) absent / before the positionals / after them / through **{...} (solver choices)"
		b["scoping"] = "21 scenarios (incl. calls with 11 and 12 arguments reading every \\N; keyword defaults of a literal evaluated twice in different scopes; an undeclared keyword named like a parameter / outer variable; nested * and ** unpacking of the same array / object in one call; closure sees later reassignment, never the caller's scope, assignment and compound assignment stay local, sibling isolation, recursion frames, shadowing, function-making functions, receiver first, receiver-less chain, fresh frame per call, closures made in a chain, nested closures, method scope) with inputs a, b any int in (-10^6, 10^6)"
	case "C04":
		if tier == "thorough" {
			b["elements"] = "arrays of 1..3 elements"
		} else {
			b["elements"] = "arrays of 1..2 elements"
		}
		b["contexts"] = "list chains @ =@ ~@ &@ (with and without a [] chain argument), reduce chains $ =$ ~$ from an initial accumulator, scalar chains . =. ~. &. ; each in property-call, literal-call and variable-call form"
		b["payloads"] = "element payload any int in (-1000, 1000) or nil; accumulator payload any int in (-1000, 1000); nil values are the literal nil and, in a second family, nils made with Nil.bear({}).new (both as elements and as call results)"
		b["chain_argument_digest"] = "8 receivers (empty, all-nil, results all nil, results that are pairs, mixed, int, str, obj) x 6 chain arguments (empty and non-empty obj / map / arr) x 4 list chains: property, literal and variable call must give the same digest (also when nothing is collected)"
		b["receivers"] = "additionally int, str, range, obj, map, iterator, arr receivers with the total property S (three-form agreement only)"
	case "C09":
		if tier == "thorough" {
			b["object_literals"] = "1..4 pairs, or 1..3 pairs + a ** of 2 pairs; every name a solver choice from {a, b, _p, a!, ab}"
			b["map_literals"] = "1..3 pairs, or 1..2 pairs + a ** of 1..2 pairs"
		} else {
			b["object_literals"] = "1..3 pairs, or 1..2 pairs + a ** of 2 pairs; every name a solver choice from {a, b, _p, a!, ab}"
			b["map_literals"] = "1..2 pairs, 1 pair + a ** of 1 pair, and 0..1 pairs + two ** expansions of 1 pair each"
		}
		b["map_keys"] = "kind per key a solver choice of int (any int64), float (any non-NaN, non -0.0 pattern), str (pool of 4, incl. the names len and keys of Map's own properties), nil, bool, one-element array of any int64 — whether two keys collide is decided by the solver; the first pair stores an int or nil (solver choice)"
		b["accessors"] = "keys / values / items (with and without private?: true), iteration, len, o['name], o.name, m[k] for every written key and for a fresh symbolic int key"
	case "C05":
		if tier == "thorough" {
			b["forest"] = "2 and 3 objects; each later object is a bear child or a bro sibling of a solver-chosen earlier object"
			b["properties"] = "names x, y: absent / value / function / method per object; _missing present or not per object; lookups of x, y and the never-defined z and _w on every object; 2-object forests also with the name set {x, _y} (a private name), and with a root that is a bear child of a concrete str / arr / int value"
		} else {
			b["forest"] = "2 objects (names x, y; all property kinds) and 3 objects (name x; kinds absent / value / function); each later object is a bear child or a bro sibling of a solver-chosen earlier object"
			b["properties"] = "names x, y per object; _missing present or not per object; lookups of x, y and the never-defined z and _w on every object; 2-object forests also with the name set {x, _y} (a private name), and with a root that is a bear child of a concrete str / arr / int value"
		}
		b["accessors"] = "o.name(7), o['name], which, proto, ancestors, kindOf? (all pairs), keys - all asserted after the objects have been used as ** expansions of a function call and of a property call"
	case "C14":
		if tier == "thorough" {
			b["history_length"] = "1..2 operations with the full ranges, 3 operations with narrow ranges (lim 0..2, stride 1..2, starts -1..2); + two final rounds of next on both iterators"
		} else {
			b["history_length"] = "1 operation with the full ranges, 2 operations with narrow ranges (lim 0..2, stride 1..2, starts -1..2); + two final rounds of next on both iterators"
		}
		b["operations"] = "next, list chain @{|x| x}, A, replace by gen.new(a), replace by other.new(a) (a fresh iterator made from the other, possibly advanced or exhausted, iterator) — on either of two iterators made from one literal (solver choices)"
		b["symbolic"] = "limit, stride, every start value (small ranges so that chains terminate within 12 elements)"
	case "C13":
		if tier == "thorough" {
			b["chain_length"] = "1..3 steps"
		} else {
			b["chain_length"] = "1..2 steps"
		}
		b["step_forms"] = "property call, literal call, operator call in chain form, property call with a positional and a keyword argument, property call with two positional arguments — all 5^k combinations (solver choices)"
		b["failure"] = "K any value in [0, k] (0 = none); error kind one of ValueErr, TypeErr, ZeroDivisionErr, NameErr, NoPropErr, AssertionErr"
		b["accessors"] = "A, val, err, val?, err?, or, abandon, catch (matching and non-matching type), ignore"
		b["nested"] = "a step (literal, method, literal after an operator step) that succeeds with an Either value (failed or not) or an error value (as delivered by .err) as its result; a chain started on an Either value; receiver any int in (2, 1000)"
		b["reuse"] = "an Either bound to a name and continued two or three ways (operator step, literal step, failing step, catch), receiver any int in (2, 1000)"
	case "C18":
		b["payloads"] = "ints: any int64; floats: any 64-bit pattern; strs: pool of 4; containers: a symbolic int element/key/bound in several shapes that are sub- and supersets of each other (arrays of 0..2 elements; objects {}, {a}, {a, b}, a bear child; maps with scalar and non-scalar keys: {n}, {n, [1]}, {n, 'k}, {[1]}, {[1], {a: 1}}, {})"
		if tier == "thorough" {
			b["pairs"] = "all 14 x 14 kind pairs for the equality laws; 6 ordered kinds for order laws; triples of one ordered kind for transitivity"
		} else {
			b["pairs"] = "14 same-kind + 14 cross-kind pairs for the equality laws; 6 ordered kinds for order laws; triples of one ordered kind for transitivity"
		}
	case "C08":
		b["templates"] = "49 constructs (incl. calls with two ** expansions sharing a name; printing of maps whose keys print alike and of functions with duplicate keyword parameters, the order in which equality calls the == of the entries; equality of objects / maps whose entries both differ and raise in ==; every scalar chain kind and the lonely / thoughtful list chains with nil receivers, nil elements and empty receivers; 4 of them written over several source lines) with side-effecting slots mark(i): array/object/map literals, range bounds, infix operands, positional + keyword arguments, receiver/chain argument/arguments/kwargs of a chained property call, interpolated string parts, duplicate kwargs/object keys/map keys, ** unpacking into objects/maps/calls, keys, printing, equality, kwarg defaults, object/map iteration, nested calls"
		b["map_sizes"] = "Go maps with 2..4 entries are permuted; larger maps iterate in insertion order"
		if tier == "thorough" {
			b["orders"] = "all n! permutations per range"
		} else {
			b["orders"] = "n rotations + reversal per range"
		}
	case "C07":
		b["templates"] = "49 constructs (incl. calls with two ** expansions sharing a name; callbacks of 7 native Iterable methods and 9 native iterator combinators - lazyMap, append, prepend, chain, withI, zip, acc, while, until - consuming an iterator whose element function raises; statements after yield / guarded yield / defer, method bodies, predicates of native loop helpers): array/object/map literals, range bounds, infix operands, call args + kwargs, receiver + args of a property call, if condition, embedded string parts, list/strict-list/reduce chains in literal-call and property-call form, statement list, callee expression, chain argument, function body, assignment, * unpacking, try step, thoughtful chain, lonely chain receiver, nested literals, range inside array"
		b["failure_position"] = "K any value in [0, m] (0 = no failure), m <= 4 slots per template"
		b["error_kinds"] = "ValueErr, TypeErr, ZeroDivisionErr, StopIterErr, NameErr, NoPropErr (solver choice); StopIterErr is excluded for the one template whose slots run inside the body of an iterator that A is consuming (there it is the protocol's end signal, C14)"
	case "C15":
		if tier == "thorough" {
			b["body_length"] = "1..4 statements"
		} else {
			b["body_length"] = "1..3 statements"
		}
		b["statement_kinds"] = "mark; defer mark; defer mark if g (g any int64); return v if k == i; raise if k == i; nested failing call (with its own defer) if k == i; defer that raises — all 7^n shapes, exit point k any int64"
		b["nesting"] = "function called from an enclosing function that continues after the call (defer leak to the caller is visible)"
	case "C12":
		b["condition_values"] = "int: any int64; float: any 64-bit pattern (NaN, infinities, signed zeros); str/arr/obj/map: empty and one-element; nil; true; false; Int.bear.new(v) for any int64 v; bear child of an array; object with user-defined B returning either boolean; range; function; objects whose B is a non-boolean value, nil, or a method returning a non-boolean; a BaseObj child with no B at all; descendants that carry their own B (either boolean): Int.bear({B}).new(v) and v.bear({B}) for any int64 v, Float.bear({B}).new(f) for any bit pattern, Str / Arr descendants (empty and not), a child of nil, a grandchild inheriting B, a child of an empty / non-empty map; booleans produced by 15 operations / built-ins in both polarities (JSON.dec at top level, in an array, in an object; == != === < ! kindOf? empty? val? err? B any? all? even? has?)"
		b["constructs"] = "c.B, `x if c else y`, `x if c`, !c, c && x, c || x, guarded return / raise / yield / defer, and || / && / ||= / &&= whose result is bound to the name of the left operand in the owning scope and inside closures (19 templates per condition value)"
	case "C10":
		b["operands"] = "a, b: any int64 (full 64-bit range) for + - * // % <=> / and unary -, called through the IntProps table and (except /) through parsed source `a op b` evaluated by Eval in the bootstrapped world (plus < == >=)"
		if tier == "thorough" {
			b["power"] = "exponent each of 0..63 (concrete), base: every int64 whose power fits in 64 bits"
		} else {
			b["power"] = "exponent each of 0..16, 31, 32, 39, 40, 62, 63 (concrete), base: every int64 whose power fits in 64 bits"
		}
	case "C11":
		if tier == "thorough" {
			b["sequence_length"] = "0..5"
		} else {
			b["sequence_length"] = "0..3"
		}
		b["start_stop_step"] = "each nil or any int64 (unconstrained 64-bit bit-vectors)"
		b["index"] = "any int64"
		b["loop_unwinding"] = "implicit: result longer than n+1 elements is an assertion failure; step bound per path = max_steps"
	}
	return b
}

func outsideFor(id string) []string {
	switch id {
	case "C01":
		return []string{"arbitrary source text through the regex lexer and the grammar's error paths (token-level parsing is exercised by C02 / C17)", "stdin contents beyond the REPL sessions listed, CLI flag wiring, the playground server, the HTTP module, file and process I/O built-ins", "recursion-depth and memory exhaustion (excluded by the statement), e.g. huge repeat counts", "three or more arguments, keyword arguments", "programs composed of several calls (covered per construct by C03..C15)"}
	case "C17":
		return []string{"integer and string spellings outside the pools (digits are not symbolic: no symbolic-content strings in the engine)", "symbols and property positions of names (only variable position is replayed)", "raw strings, char literals, embedded strings' pieces", "names longer than the bound or outside ASCII"}
	case "C16":
		return []string{"which grammar positions accept a line break (grammar + RET regex; only 'a long run is one token' is covered)", "the regular expressions themselves (token types are contract stubs)", "tokens whose recognition depends on more than the token itself being buffered (look-ahead beyond the token)", "source containing NUL bytes", "position / line bookkeeping"}
	case "C02":
		return []string{"spelling -> token (the regex lexer; C17)", "sequences of more than three infix operators", "nested if/else without parentheses", "multi-line chains, literals of functions/objects as operands", "AST printing itself (both sides are printed by the same printer)"}
	case "C19":
		return []string{"programs outside the family", "the playground executor (web/wasm) and HTTP handlers (same Eval entry point, not driven separately)", "REPL line state (kept on purpose between lines)", "symbol interning tables (grow-only)", "stdin / stdout contents"}
	case "C06":
		return []string{"sequences longer than two operations", "properties with two or more arguments", "iterators (mutable by design)", "variables (reassignment is allowed)", "I/O and eval properties", "values reachable only through closures"}
	case "C03":
		return []string{"pattern-matching parameters (unimplemented in the code)", "programs outside the scenario list (no generated-program reference evaluator was built)", "duplicate keyword arguments (C08)", "iterators' recur arguments", "more than 4 positional arguments or 3 keywords"}
	case "C04":
		return []string{"lonely reduce chain &$ (excluded by the statement)", "chain arguments other than [] (obj / map digest need pair-shaped results)", "receivers whose _iter is user-defined", "more elements than the bound", "keyword arguments in chained calls"}
	case "C09":
		return []string{"literals larger than the bound", "object keys / nested maps as map keys", "NaN and -0.0 float keys", "printing (covered for fixed programs by C08)", "m[k] for an absent key that names one of the map's own properties"}
	case "C05":
		return []string{"forests deeper or wider than the bound", "receivers that are not objects (ints, strs ... resolve through their built-in prototypes; covered indirectly by other checks)", "private (underscore) property names other than _missing", "properties defined on the built-in ancestors Obj/BaseObj shadowing user names", "Obj.new copies"}
	case "C14":
		return []string{"built-in iterators (arrIter/mapIter/rangeIter/intIter keep progress in closure variables; the statement is about iterator literals)", "iterator bodies outside the family (several yields, yields in nested calls)", "reduce chains over iterators", "more than two live iterators", "strides <= 0 (non-terminating chains)"}
	case "C13":
		return []string{"infix spelling of operators on the wrapper (`v.try + 1` is not a `.f` step and does not go through the proxy)", "step names defined by the wrapper's own prototype chain", "chains longer than the bound", "errors raised while evaluating a step's arguments", "user-defined error types"}
	case "C18":
		return []string{"strings outside the pool (Str#<=> compares Go strings; content is concrete here)", "containers deeper than one level or longer than one element", "prototype objects themselves and bear applied to non-objects (excluded by the statement)", "cross-kind ordering (e.g. int vs float <)", "user-defined <=>"}
	case "C08":
		return []string{"goroutine timing of start-up (the engine runs the 19 loaders eagerly; their race-freedom is C20)", "separate OS processes (the hash seed is modelled by the per-range order choice)", "JSON encoding order (encoding/json is not interpreted)", "stdin-reading side effects", "Go maps with more than 4 entries"}
	case "C07":
		return []string{"constructs not in the template list (match/case, iterators' recur arguments, import)", "errors raised inside conversion hooks B/S/== (excluded by the statement)", "more than one failing position per program", "nesting deeper than the templates"}
	case "C15":
		return []string{"bodies longer than the bound", "defers inside iterators and methods", "defers registered from nested blocks other than the guarded form", "value of a function ending in a defer statement"}
	case "C12":
		return []string{"conditions whose B raises or returns a non-boolean", "nesting of conditional constructs inside each other", "containers longer than one element (B of arr/str/obj/map depends only on emptiness in the code read)", "match/case constructs"}
	case "C10":
		return []string{"exponents above 63 (only bases -1, 0, 1 and -2**63 fit)", "negative exponents and powers that do not fit (statement is silent)", "Float operands and the nil-as-identity convention", "Int descendants (bear/new) as operands", "parsing of the operator expression (C02)"}
	case "C11":
		return []string{"sequences longer than the bound", "bounds that are not ints or nil (floats, strs, descendants)", "Int#at bit slicing (same valRange/fixRange code, not asserted separately)", "parsing of the index expression"}
	}
	return nil
}

func stubsFor(id string) []string {
	common := []string{"fmt.Sprintf/Errorf, strings.*, sort.Slice, regexp: native intrinsics on concrete arguments", "sync.RWMutex: no-op (sequential engine)", "package initialisers: repo packages + unicode, strconv only"}
	return common
}

func insensitiveList() string {
	var ns []string
	for n := range interp.OrderInsensitive {
		ns = append(ns, strings.TrimPrefix(strings.Replace(n, modPath+"/", "", -1), "*"))
	}
	sort.Strings(ns)
	return strings.Join(ns, ", ")
}
