package main

import "fmt"

// Per-property job tables: which harnesses run, with which concrete parameters and bounds.

func (j *Job) optionalSite(s string) bool {
	for _, o := range j.OptionalSites {
		if o == s {
			return true
		}
	}
	return false
}

func (j *Job) witnesses() int {
	if j.Witnesses > 0 {
		return j.Witnesses
	}
	return 3
}

func ints(lo, hi int) [][]int {
	var out [][]int
	for i := lo; i <= hi; i++ {
		out = append(out, []int{i})
	}
	return out
}

func pairs(as []int, lo, hi int) [][]int {
	var out [][]int
	for _, a := range as {
		for i := lo; i <= hi; i++ {
			out = append(out, []int{a, i})
		}
	}
	return out
}

// split turns one job with many parameter tuples into one job per tuple (parallelism).
func split(j Job) []*Job {
	var out []*Job
	for _, p := range j.Params {
		c := j
		c.Params = [][]int{p}
		c.Name = fmt.Sprintf("%s%v", j.Name, p)
		out = append(out, &c)
	}
	return out
}

func jobsFor(id, tier string) []*Job {
	thorough := tier == "thorough"
	var jobs []*Job
	add := func(js ...*Job) { jobs = append(jobs, js...) }
	base := Job{MaxPaths: 200000, MaxSteps: 5000000, TimeoutS: 240}
	if thorough {
		base.TimeoutS = 3000
		base.MaxPaths = 5000000
	}
	mk := func(name, fn string, params [][]int) Job {
		j := base
		j.Name, j.Func, j.Params = name, fn, params
		return j
	}
	wmk := func(name, fn string, params [][]int) Job {
		j := mk(name, fn, params)
		j.Setup = "zzverifw.World"
		return j
	}
	_ = wmk
	switch id {
	case "C12":
		add(split(wmk("truth", "zzverifw.H_C12_truth", ints(0, 13)))...)
	case "C10":
		im := mk("bin", "zzverifw.H_C10_bin", ints(0, 4)) // + - * // % : Int theory with explicit wrap
		im.IntMode = true
		im.SolverMs = 3000
		add(split(im)...)
		add(split(mk("bin", "zzverifw.H_C10_bin", ints(5, 6)))...) // <=> and / : bit-vectors + FP
		ng := mk("neg", "zzverifw.H_C10_neg", nil)
		ng.IntMode = true
		add(&ng)
		exps := append(ints(0, 16), [][]int{{31}, {32}, {39}, {40}, {62}, {63}}...)
		if thorough {
			exps = ints(0, 63)
		}
		pw := mk("pow", "zzverifw.H_C10_pow", exps)
		pw.IntMode = true
		pw.SolverMs = 3000
		add(split(pw)...)
		pool := mk("powpool", "zzverifw.H_C10_pow_pool", [][]int{{2}, {3}, {5}, {9}, {19}, {35}, {62}})
		pool.IntMode = true
		add(split(pool)...)
	case "C11":
		nmax := 3
		if thorough {
			nmax = 5
		}
		add(split(mk("arr", "zzverifw.H_C11_arr", ints(0, nmax)))...)
		add(split(mk("str", "zzverifw.H_C11_str", pairs([]int{0, 1}, 0, nmax)))...)
		add(split(mk("idx", "zzverifw.H_C11_idx", pairs([]int{0, 1, 2}, 0, nmax)))...)
	}
	return jobs
}

func assumptionsFor(id string) []string {
	common := []string{
		"go/ssa (x/tools v0.29.0) faithfully represents the Go source of /repo; the forked x/tools SSA interpreter implements Go semantics for the ~43 instruction kinds used",
		"z3 4.8.12 answers are correct (thorough tier cross-checks logged queries on z3 5.1.0 and cvc5 1.0)",
		"harness oracles written from the property statement and docs (DESIGN.md Appendix B)",
	}
	switch id {
	case "C12":
		return append(common, "truth oracle for built-in kinds is the statement's list of zero values (0, 0.0, \"\", [], {}, %{}, nil, false); for the user-defined B it is the value B returns", "programs are parsed natively (parser.Parse bridge) and evaluated by the real evaluator in the bootstrapped world inside the engine")
	case "C10":
		return append(common,
			"Int-theory encoding: int64 values are mathematical integers kept in range by explicit wrap-around; Go's truncated / and % are fresh q, r constrained by a = q*b + r, |r| < |b|, sign(r) in {0, sign(a)}",
			"engine lemmas added for the idiom `c := x*y; c/y != x` (both true in arithmetic for y != 0): x*y in range => c/y == x, c%y == 0; x*y out of range => c/y != x; and: an in-range product is unchanged by wrap-around",
			"queries the incremental z3 4.8.12 core gives up on are re-asked one-shot to z3 5.1.0 and cvc5 1.0 (non-linear integer arithmetic); unknown stays inconclusive",
			"** is checked per concrete exponent; the set of bases whose power fits is the interval computed concretely by the harness")
	case "C11":
		return append(common, "bounds are *PanInt or nil (other bound types are outside the statement)", "sequence lengths as listed in bounds; elements distinguishable by pointer identity")
	}
	return common
}

func boundsFor(id, tier string, jobs []*Job) map[string]interface{} {
	b := map[string]interface{}{"tier": tier}
	switch id {
	case "C12":
		b["condition_values"] = "int: any int64; float: any 64-bit pattern (NaN, infinities, signed zeros); str/arr/obj/map: empty and one-element; nil; true; false; Int.bear.new(v) for any int64 v; bear child of an array; object with user-defined B returning either boolean; range; function"
		b["constructs"] = "c.B, `x if c else y`, `x if c`, !c, c && x, c || x, guarded return / raise / yield / defer (11 templates per condition value)"
	case "C10":
		b["operands"] = "a, b: any int64 (full 64-bit range) for + - * // % <=> / and unary -"
		if tier == "thorough" {
			b["power"] = "exponent each of 0..63 (concrete), base: every int64 whose power fits in 64 bits"
		} else {
			b["power"] = "exponent each of 0..16, 31, 32, 39, 40, 62, 63 (concrete), base: every int64 whose power fits in 64 bits"
		}
	case "C11":
		if tier == "thorough" {
			b["sequence_length"] = "0..5"
		} else {
			b["sequence_length"] = "0..3"
		}
		b["start_stop_step"] = "each nil or any int64 (unconstrained 64-bit bit-vectors)"
		b["index"] = "any int64"
		b["loop_unwinding"] = "implicit: result longer than n+1 elements is an assertion failure; step bound per path = max_steps"
	}
	return b
}

func outsideFor(id string) []string {
	switch id {
	case "C12":
		return []string{"conditions whose B raises or returns a non-boolean", "nesting of conditional constructs inside each other", "containers longer than one element (B of arr/str/obj/map depends only on emptiness in the code read)", "match/case constructs"}
	case "C10":
		return []string{"exponents above 63 (only bases -1, 0, 1 and -2**63 fit)", "negative exponents and powers that do not fit (statement is silent)", "Float operands and the nil-as-identity convention", "Int descendants (bear/new) as operands", "parsing of the operator expression (C02) and dispatch through Eval (see jobs: operators are called through the IntProps table)"}
	case "C11":
		return []string{"sequences longer than the bound", "bounds that are not ints or nil (floats, strs, descendants)", "Int#at bit slicing (same valRange/fixRange code, not asserted separately)", "parsing of the index expression"}
	}
	return nil
}

func stubsFor(id string) []string {
	common := []string{"fmt.Sprintf/Errorf, strings.*, sort.Slice, regexp: native intrinsics on concrete arguments", "sync.RWMutex: no-op (sequential engine)", "package initialisers: repo packages + unicode, strconv only"}
	return common
}
