package main

import (
	"fmt"
	"go/types"
	"os"
	"path/filepath"
	"strings"

	"gosym/interp"

	"golang.org/x/tools/go/packages"
	"golang.org/x/tools/go/ssa"
	"golang.org/x/tools/go/ssa/ssautil"
)

var (
	repoDir  = envOr("VERIF_REPO", "/repo")
	verifDir = envOr("VERIF_DIR", "/verif")
)

const modPath = "github.com/Syuparn/pangaea"

func envOr(k, d string) string {
	if v := os.Getenv(k); v != "" {
		return v
	}
	return d
}

// overlayFiles maps virtual /repo paths to harness files under /verif/harness.
func overlayFiles() map[string]string {
	out := map[string]string{}
	root := filepath.Join(verifDir, "harness")
	filepath.Walk(root, func(p string, info os.FileInfo, err error) error {
		if err != nil || info.IsDir() || !strings.HasSuffix(p, ".go") {
			return nil
		}
		rel, _ := filepath.Rel(root, p)
		if strings.HasSuffix(rel, "_test.go") {
			return nil
		}
		if strings.HasPrefix(rel, "simplexer/") {
			rel = "third_party/" + rel
		}
		out[filepath.Join(repoDir, rel)] = p
		return nil
	})
	return out
}

type loaded struct {
	prog *ssa.Program
	pkgs map[string]*ssa.Package // by import path
}

func load() *loaded {
	ov := map[string][]byte{}
	for virt, real := range overlayFiles() {
		b, err := os.ReadFile(real)
		if err != nil {
			fatal("read harness: %v", err)
		}
		ov[virt] = b
	}
	cfg := &packages.Config{
		Mode:    packages.LoadAllSyntax,
		Dir:     repoDir,
		Overlay: ov,
		Env:     append(os.Environ(), "GOFLAGS=-mod=mod", "GOPROXY=off", "GOSUMDB=off", "GOTOOLCHAIN=local"),
	}
	pkgs, err := packages.Load(cfg, "./zzverifw", "./runscript", "github.com/macrat/simplexer")
	if err != nil {
		fatal("load: %v", err)
	}
	if packages.PrintErrors(pkgs) > 0 {
		fatal("load: package errors (does /repo compile with the harness overlay?)")
	}
	prog, _ := ssautil.AllPackages(pkgs, ssa.InstantiateGenerics)
	prog.Build()
	l := &loaded{prog: prog, pkgs: map[string]*ssa.Package{}}
	for _, p := range prog.AllPackages() {
		l.pkgs[p.Pkg.Path()] = p
	}
	return l
}

func (l *loaded) fn(qualified string) *ssa.Function {
	// "pkgpath.Func"
	i := strings.LastIndex(qualified, ".")
	pkg, name := qualified[:i], qualified[i+1:]
	if !strings.Contains(pkg, "/") && !strings.Contains(pkg, ".") {
		pkg = modPath + "/" + pkg
	}
	p := l.pkgs[pkg]
	if p == nil {
		fatal("no package %s", pkg)
	}
	f := p.Func(name)
	if f == nil {
		fatal("no function %s in %s", name, pkg)
	}
	return f
}

func initAllow(path string) bool {
	if strings.HasPrefix(path, modPath) && !strings.Contains(path, "modules/http") {
		return true
	}
	switch path {
	case "github.com/macrat/simplexer", "unicode", "strconv", "github.com/dlclark/regexp2", "github.com/dlclark/regexp2/syntax", "github.com/lithammer/dedent", "math/big", "github.com/tanaton/dtoa", "unicode/utf8", "io", "bufio":
		return true
	}
	return false
}

func newEngine(l *loaded) *interp.Engine {
	eng := interp.NewEngine(l.prog, initAllow)
	return eng
}

func fatal(f string, a ...interface{}) {
	fmt.Fprintf(os.Stderr, "gosym: "+f+"\n", a...)
	os.Exit(2)
}

// hasFunc reports whether a function with this ssa name ("(*pkg.T).m" or "pkg.f") exists
// in the loaded program (looked up through go/types only).
func (l *loaded) hasFunc(name string) bool {
	if strings.HasPrefix(name, "(*") {
		// (*pkg/path.T).m
		end := strings.Index(name, ").")
		if end < 0 {
			return false
		}
		qual, meth := name[2:end], name[end+2:]
		i := strings.LastIndex(qual, ".")
		p := l.pkgs[qual[:i]]
		if p == nil {
			return false
		}
		obj := p.Pkg.Scope().Lookup(qual[i+1:])
		if obj == nil {
			return false
		}
		ms := types.NewMethodSet(types.NewPointer(obj.Type()))
		for k := 0; k < ms.Len(); k++ {
			if ms.At(k).Obj().Name() == meth {
				return true
			}
		}
		return false
	}
	i := strings.LastIndex(name, ".")
	p := l.pkgs[name[:i]]
	return p != nil && p.Func(name[i+1:]) != nil
}
