package main

import (
	"fmt"
	"os"
)

func main() {
	if len(os.Args) < 2 {
		fmt.Fprintln(os.Stderr, "usage: gosym worker <job-json> | check <ID> <quick|thorough> | concrete ...")
		os.Exit(2)
	}
	switch os.Args[1] {
	case "worker":
		runWorker(os.Args[2])
	case "check":
		if len(os.Args) < 4 {
			fatal("usage: gosym check <ID> <quick|thorough>")
		}
		if os.Args[2] == "C20" {
			os.Exit(runC20(os.Args[3]))
		}
		os.Exit(runCheck(os.Args[2], os.Args[3]))
	case "replpool":
		genReplPool()
	case "concrete":
		os.Exit(runConcrete(os.Args[2:]))
	case "difftest":
		os.Exit(runDiff(0))
	case "tokens":
		for _, r := range tokenTable() {
			fmt.Println(r)
		}
	case "mapranges":
		listMapRanges()
	case "replay":
		os.Exit(runReplay(os.Args[2]))
	default:
		fmt.Fprintln(os.Stderr, "unknown subcommand")
		os.Exit(2)
	}
}
