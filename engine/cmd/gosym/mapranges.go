package main

import (
	"fmt"
	"go/types"
	"sort"
	"strings"

	"golang.org/x/tools/go/ssa"
	"golang.org/x/tools/go/ssa/ssautil"
)

// listMapRanges prints every `range` over a Go map in the repo's own packages.
func listMapRanges() {
	l := load()
	var out []string
	for f := range ssautil.AllFunctions(l.prog) {
		if f.Pkg == nil && f.Parent() == nil {
			continue
		}
		p := f
		for p.Parent() != nil {
			p = p.Parent()
		}
		if p.Pkg == nil || !strings.HasPrefix(p.Pkg.Pkg.Path(), modPath) || strings.Contains(p.Pkg.Pkg.Path(), "zzverif") {
			continue
		}
		for _, b := range f.Blocks {
			for _, in := range b.Instrs {
				if r, ok := in.(*ssa.Range); ok {
					if _, ok := r.X.Type().Underlying().(*types.Map); ok {
						out = append(out, fmt.Sprintf("%s\t%s\t%s", f.String(), l.prog.Fset.Position(r.Pos()), r.X.Type()))
					}
				}
			}
		}
	}
	sort.Strings(out)
	for _, o := range out {
		fmt.Println(o)
	}
}
