package main

import (
	"encoding/json"
	"fmt"
	"go/constant"
	"os"
	"sort"
	"strings"
	"time"

	"gosym/interp"

	"golang.org/x/tools/go/ssa"
)

// Job is one harness exploration (possibly over several parameter tuples).
type Job struct {
	ID            string            `json:"id"`
	Name          string            `json:"name"`
	Func          string            `json:"func"`            // "zzverifw.H_C11_arr"
	Setup         string            `json:"setup,omitempty"` // run once, concretely, before exploring
	Params        [][]int           `json:"params,omitempty"`
	IntMode       bool              `json:"int_mode,omitempty"`
	MapOrder      int               `json:"map_order,omitempty"`
	MaxPaths      int               `json:"max_paths"`
	MaxSteps      int64             `json:"max_steps"`
	TimeoutS      int               `json:"timeout_s"`
	Solver        string            `json:"solver,omitempty"`
	SolverMs      int               `json:"solver_ms,omitempty"`
	Overrides     map[string]string `json:"overrides,omitempty"` // real function -> harness function
	Known         []string          `json:"known,omitempty"`     // names of known regions (status known)
	QueryLog      string            `json:"query_log,omitempty"`
	Weight        int               `json:"weight,omitempty"`
	OptionalSites []string          `json:"optional_sites,omitempty"`
	Witnesses     int               `json:"witnesses,omitempty"`
	ReplayRepeat  int               `json:"replay_repeat,omitempty"`
}

type JobResult struct {
	Job            string            `json:"job"`
	Paths          int               `json:"paths"`
	Completed      int               `json:"completed"`
	SymPaths       int               `json:"sym_paths"`
	Decisions      int               `json:"decisions"`
	Asserts        int               `json:"asserts"`
	Discharged     int               `json:"discharged"`
	AssertUnk      int               `json:"assert_unknown"`
	Aborted        map[string]int    `json:"aborted"`
	AssertSites    map[string]int    `json:"assert_sites"`
	Reached        map[string]int    `json:"reached"`
	Findings       []*interp.Finding `json:"findings"`
	Samples        []interp.Sample   `json:"samples"`
	BoundHit       bool              `json:"bound_hit"`
	QueueLeft      int               `json:"queue_left"`
	Queries        int               `json:"queries"`
	Sat            int               `json:"sat"`
	Unsat          int               `json:"unsat"`
	Unknown        int               `json:"unknown"`
	SolverS        float64           `json:"solver_s"`
	WallS          float64           `json:"wall_s"`
	LoadS          float64           `json:"load_s"`
	SetupS         float64           `json:"setup_s"`
	Funcs          []string          `json:"funcs"`
	Instr          int64             `json:"steps"`
	Error          string            `json:"error,omitempty"`
	Solver         string            `json:"solver"`
	StaticSites    []string          `json:"static_sites"`
	Fallbacks      int               `json:"fallbacks"`
	FallbackOK     int               `json:"fallback_ok"`
	PermutedRanges map[string]int    `json:"permuted_ranges,omitempty"`
}

func runWorker(jobJSON string) {
	var job Job
	if err := json.Unmarshal([]byte(jobJSON), &job); err != nil {
		fatal("bad job: %v", err)
	}
	res := execJob(&job)
	out, _ := json.Marshal(res)
	os.Stdout.Write(out)
	os.Stdout.WriteString("\n")
}

func execJob(job *Job) *JobResult {
	t0 := time.Now()
	res := &JobResult{Job: job.Name}
	l := load()
	res.LoadS = time.Since(t0).Seconds()
	eng := newEngine(l)
	eng.IntMode = job.IntMode
	eng.MapOrder = job.MapOrder
	for real, h := range job.Overrides {
		// "?name": optional — only when the repo (still) has that function
		if strings.HasPrefix(real, "?") {
			real = real[1:]
			if !l.hasFunc(real) {
				continue
			}
		}
		interp.Override(real, l.fn(h))
	}
	entry := l.fn(job.Func)
	// package initialisers (concrete)
	if _, err := eng.Call(entry.Pkg.Func("init")); err != nil {
		res.Error = "init: " + err.Error()
		return res
	}
	if job.Setup != "" {
		t1 := time.Now()
		if _, err := eng.Call(l.fn(job.Setup)); err != nil {
			res.Error = "setup: " + err.Error()
			return res
		}
		res.SetupS = time.Since(t1).Seconds()
	}
	bin := job.Solver
	if bin == "" {
		bin = "z3"
	}
	ms := job.SolverMs
	if ms == 0 {
		ms = 10000
	}
	eng.X.S = interp.NewSolver(bin, ms, job.QueryLog)
	eng.X.S.Fallback = []string{"z3-new", "cvc5"}
	eng.X.S.FallbackMs = 30000
	res.Solver = bin
	for _, k := range job.Known {
		eng.X.KnownNames[k] = true
	}
	params := job.Params
	if len(params) == 0 {
		params = [][]int{{}}
	}
	deadline := time.Time{}
	if job.TimeoutS > 0 {
		deadline = t0.Add(time.Duration(job.TimeoutS) * time.Second)
	}
	// reset function counters: only what the exploration executes is "encoded"
	for k := range eng.Funcs {
		delete(eng.Funcs, k)
	}
	for _, ps := range params {
		eng.SetParams(ps...)
		eng.X.Tag = job.Name + fmt.Sprint(ps)
		eng.X.CurParams = append([]int{}, ps...)
		before := eng.X.Paths
		eng.Explore(func() {
			if _, err := eng.Call(entry); err != nil {
				panic(err)
			}
		}, interp.Bounds{MaxPaths: before + job.MaxPaths, MaxSteps: job.MaxSteps, Deadline: deadline})
	}
	x := eng.X
	res.Paths, res.Completed, res.SymPaths, res.Decisions = x.Paths, x.Completed, x.SymPaths, x.Decisions
	res.Asserts, res.Discharged, res.AssertUnk = x.Asserts, x.Discharged, x.AssertUnk
	res.Aborted, res.AssertSites, res.Reached = x.Aborted, x.AssertSites, x.Reached
	res.Findings, res.Samples = x.SortedFindings(), x.Samples
	res.BoundHit, res.QueueLeft = x.BoundHit, x.QueueLeft
	res.Queries, res.Sat, res.Unsat, res.Unknown = x.S.Queries, x.S.Sat, x.S.Unsat, x.S.Unknown
	res.SolverS = x.S.Time.Seconds()
	res.Fallbacks, res.FallbackOK = x.S.Fallbacks, x.S.FallbackOK
	res.PermutedRanges = eng.PermutedRanges
	res.Funcs = encodedFuncs(eng.Funcs)
	res.StaticSites = staticAssertSites(entry)
	for _, f := range res.Findings {
		f.Func = job.Func
	}
	for i := range res.Samples {
		res.Samples[i].Func = job.Func
	}
	for _, n := range eng.Funcs {
		res.Instr += n
	}
	x.S.Close()
	res.WallS = time.Since(t0).Seconds()
	return res
}

func encodedFuncs(m map[*ssa.Function]int64) []string {
	set := map[string]bool{}
	for f := range m {
		if f.Pkg == nil {
			if f.Parent() == nil {
				continue
			}
		}
		p := f
		for p.Parent() != nil {
			p = p.Parent()
		}
		if p.Pkg == nil {
			continue
		}
		path := p.Pkg.Pkg.Path()
		if !(strings.HasPrefix(path, modPath) || path == "github.com/macrat/simplexer") {
			continue
		}
		if strings.Contains(path, "zzverif") {
			continue
		}
		name := f.String()
		if pos := f.Prog.Fset.Position(f.Pos()); pos.IsValid() && strings.Contains(pos.Filename, "zz_verif") {
			continue
		}
		set[strings.TrimPrefix(name, modPath+"/")] = true
	}
	var out []string
	for k := range set {
		out = append(out, k)
	}
	sort.Strings(out)
	return out
}

// staticAssertSites lists the constant messages of all rt.Assert calls reachable from
// the harness entry through harness code (vacuity guard: each must be hit).
func staticAssertSites(entry *ssa.Function) []string {
	seen := map[*ssa.Function]bool{}
	sites := map[string]bool{}
	isHarness := func(f *ssa.Function) bool {
		pos := f.Prog.Fset.Position(f.Pos())
		return strings.Contains(pos.Filename, "zz_verif") || strings.Contains(pos.Filename, "zzverifw")
	}
	var walk func(f *ssa.Function)
	walk = func(f *ssa.Function) {
		if f == nil || seen[f] || !isHarness(f) {
			return
		}
		seen[f] = true
		for _, b := range f.Blocks {
			for _, in := range b.Instrs {
				switch in := in.(type) {
				case ssa.CallInstruction:
					c := in.Common()
					if callee := c.StaticCallee(); callee != nil {
						if callee.String() == modPath+"/zzverifrt.Assert" {
							if k, ok := c.Args[1].(*ssa.Const); ok {
								if k.Value != nil && k.Value.Kind() == constant.String {
									sites[constant.StringVal(k.Value)] = true
								}
							}
						} else {
							walk(callee)
						}
					}
					for _, a := range c.Args {
						if mc, ok := a.(*ssa.MakeClosure); ok {
							walk(mc.Fn.(*ssa.Function))
						}
					}
				case *ssa.MakeClosure:
					walk(in.Fn.(*ssa.Function))
				}
			}
		}
		for _, af := range f.AnonFuncs {
			walk(af)
		}
	}
	walk(entry)
	var out []string
	for k := range sites {
		out = append(out, k)
	}
	sort.Strings(out)
	return out
}
