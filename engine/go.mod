module gosym

go 1.23

require (
	github.com/Syuparn/pangaea v0.0.0
	golang.org/x/tools v0.29.0
)

require (
	github.com/macrat/simplexer v0.0.0-20180110131648-bce8e0661570 // indirect
	golang.org/x/mod v0.22.0 // indirect
	golang.org/x/sync v0.10.0 // indirect
)

replace github.com/Syuparn/pangaea => /repo

replace github.com/macrat/simplexer v0.0.0-20180110131648-bce8e0661570 => /repo/third_party/simplexer
