package interp

// gosym: the nondet / assertion API seen by harnesses (package zzverifrt), engine side.

import (
	"fmt"
	"go/types"
	"math/big"
	"os"
	"strings"
)

const rtPkg = "github.com/Syuparn/pangaea/zzverifrt."

func callSite(fr *frame) string {
	// fr is the frame of the external itself; its caller is the harness
	if fr.caller != nil && fr.caller.fn != nil {
		return fr.caller.fn.Name()
	}
	return "?"
}

func init() {
	ext := func(name string, f externalFn) { externals[rtPkg+name] = f }
	ext("Int64", func(fr *frame, a []value) value { return theEngine.freshVar(types.Int64, "int64") })
	ext("Bool", func(fr *frame, a []value) value { return theEngine.freshVar(types.Bool, "bool") })
	ext("Float64", func(fr *frame, a []value) value { return theEngine.freshVar(types.Float64, "float64") })
	// Choice(n): concrete int in [0,n), one path per feasible value.
	ext("Choice", func(fr *frame, a []value) value {
		n := a[0].(int)
		v := theEngine.freshVar(types.Int64, "int64")
		x := theEngine.X
		if v.t.s == sInt {
			x.addPC(tand(mkBool("<=", intConst(0), v.t), mkBool("<", v.t, intConst(int64(n)))))
		} else {
			x.addPC(mkBool("bvult", v.t, bvConst(64, uint64(n))))
		}
		if n <= 0 {
			panic(pathAbort{"Choice(0)"})
		}
		for i := 0; i < n-1; i++ {
			var c *Term
			if v.t.s == sInt {
				c = teq(v.t, intConst(int64(i)))
			} else {
				c = teq(v.t, bvConst(64, uint64(i)))
			}
			if theEngine.decide(c) {
				return i
			}
		}
		return n - 1
	})
	ext("Param", func(fr *frame, a []value) value {
		i := a[0].(int)
		if i >= len(theEngine.Params) {
			panic(fmt.Sprintf("Param(%d): only %d params", i, len(theEngine.Params)))
		}
		return theEngine.Params[i]
	})
	ext("Assume", func(fr *frame, a []value) value {
		switch c := a[0].(type) {
		case bool:
			if !c {
				panic(pathAbort{"assume false"})
			}
		case *symv:
			r, _ := theEngine.X.S.check([]*Term{c.t}, nil)
			if r != "sat" {
				panic(pathAbort{"assume infeasible"})
			}
			theEngine.X.addPC(c.t)
		}
		return nil
	})
	ext("Assert", func(fr *frame, a []value) value {
		x := theEngine.X
		x.Asserts++
		x.pathAsserted++
		msg := a[1].(string)
		x.AssertSites[msg]++
		switch c := a[0].(type) {
		case bool:
			if !c {
				theEngine.report("ASSERT: "+msg, nil)
				panic(pathAbort{"assert failed (reported)"})
			}
			x.Discharged++
		case *symv:
			r, _ := x.S.check([]*Term{tnot(c.t)}, nil)
			switch r {
			case "unsat":
				x.Discharged++
			case "sat":
				theEngine.report("ASSERT: "+msg, tnot(c.t))
				// continue on the part of the path where the assertion holds
				if r2, _ := x.S.check([]*Term{c.t}, nil); r2 != "sat" {
					panic(pathAbort{"assert failed (reported)"})
				}
				x.addPC(c.t)
			default:
				x.AssertUnk++
				x.Aborted["assert unknown: "+msg]++
			}
		}
		return nil
	})
	// Known(name, cond): declares a known-finding region for this path.
	ext("Known", func(fr *frame, a []value) value {
		name := a[0].(string)
		var t *Term
		switch c := a[1].(type) {
		case bool:
			t = boolConst(c)
		case *symv:
			t = c.t
		}
		theEngine.X.regions = append(theEngine.X.regions, regionTerm{name, t})
		return nil
	})
	ext("Reach", func(fr *frame, a []value) value {
		theEngine.X.Reached[a[0].(string)]++
		return nil
	})
	ext("Note", func(fr *frame, a []value) value {
		x := theEngine.X
		if debugUnwind {
			fmt.Fprintf(os.Stderr, "NOTE path=%d: %s\n", x.Paths, a[0].(string))
		}
		if len(x.obs) < 12 {
			x.obs = append(x.obs, a[0].(string))
		}
		return nil
	})
	// MapOrder(n): from now on, every range over a Go map with 2..n entries iterates in a
	// solver-chosen order (n = 0 switches back to insertion order).
	ext("MapOrder", func(fr *frame, a []value) value {
		n := a[0].(int)
		theEngine.mapOrderOn = n > 0
		theEngine.mapOrderMax = n
		return nil
	})
	ext("TempFile", func(fr *frame, a []value) value {
		name := "/virtual/" + a[0].(string)
		virtualFiles[name] = a[1].(string)
		return name
	})
	ext("Symbolic", func(fr *frame, a []value) value { return true })
	ext("IsConcrete", func(fr *frame, a []value) value {
		v := a[0]
		if i, ok := v.(iface); ok {
			v = i.v
		}
		return !isSym(v)
	})
	// TryCall(f) runs f and reports whether it panicked (Go panic escaping the code under test).
	ext("Panics", func(fr *frame, a []value) value {
		var msg string
		func() {
			defer func() {
				if r := recover(); r != nil {
					if isEngineAbort(r) {
						panic(r)
					}
					if _, ok := r.(string); ok {
						panic(r) // interpreter-internal: not a target panic
					}
					if e, ok := r.(error); ok && strings.Contains(e.Error(), "interp.") {
						// a failed type assertion inside the interpreter itself (a symbolic
						// value reached a concrete-only intrinsic): unsupported, not a verdict
						panic("unsupported in the engine: " + e.Error())
					}
					switch r := r.(type) {
					case targetPanic:
						msg = "panic: " + toString(r.v)
					case error:
						msg = "panic: " + r.Error()
					default:
						msg = fmt.Sprintf("panic: %v", r)
					}
					if strings.Contains(msg, "gosym internal") {
						panic(r)
					}
				}
			}()
			call(fr.i, fr, 0, a[0], nil)
		}()
		return msg
	})
	// Exact-arithmetic specs (Int theory on the engine side, math/big natively).
	ext("SpecFloorDiv", func(fr *frame, a []value) value { return specFloorDiv(a[0], a[1], a[2]) })
	ext("SpecMod", func(fr *frame, a []value) value { return specMod(a[0], a[1], a[2]) })
	ext("SpecMul", func(fr *frame, a []value) value { return specArith("*", a[0], a[1], a[2]) })
	ext("SpecAdd", func(fr *frame, a []value) value { return specArith("+", a[0], a[1], a[2]) })
	ext("SpecSub", func(fr *frame, a []value) value { return specArith("-", a[0], a[1], a[2]) })
	ext("FitsMul", func(fr *frame, a []value) value { return specFits("*", a[0], a[1]) })
	ext("FitsAdd", func(fr *frame, a []value) value { return specFits("+", a[0], a[1]) })
	ext("SpecPow", func(fr *frame, a []value) value { return boolVal(teq(powTerm(a[0], a[1]), asIntTerm(a[2]))) })
	ext("FitsPow", func(fr *frame, a []value) value {
		r := powTerm(a[0], a[1])
		return boolVal(tand(mkBool("<=", intConstBig(new(big.Int).Neg(pow2[63])), r), mkBool("<", r, intConstBig(pow2[63]))))
	})
	ext("FitsSub", func(fr *frame, a []value) value { return specFits("-", a[0], a[1]) })
}

func asIntTerm(v value) *Term {
	if s, ok := v.(*symv); ok {
		if s.t.s == sInt {
			return s.t
		}
		if s.t.s == sBV {
			// signed interpretation of the bit-vector
			return mkInt("-", &Term{op: "bv2nat", s: sInt, args: []*Term{mkBV("bvadd", 64, s.t, bvConst(64, 1<<63))}}, intConstBig(pow2[63]))
		}
		panic(pathAbort{"spec: non-integer operand"})
	}
	return intConst(asInt64(v))
}

func boolVal(t *Term) value {
	switch t.op {
	case "true":
		return true
	case "false":
		return false
	}
	return &symv{types.Bool, t}
}

// specFloorDiv(a,b,q): q = floor(a/b), b != 0  ⇔  exists r: a = q*b + r, 0 <= r < |b| (b>0) or b < r <= 0 (b<0)
func specFloorDiv(a, b, q value) value {
	A, B, Q := asIntTerm(a), asIntTerm(b), asIntTerm(q)
	r := mkInt("-", A, mkInt("*", Q, B))
	z := intConst(0)
	return boolVal(tite(mkBool(">", B, z),
		tand(mkBool("<=", z, r), mkBool("<", r, B)),
		tand(mkBool("<", B, r), mkBool("<=", r, z))))
}

// specMod(a,b,r): |r| < |b| and b divides a-r
func specMod(a, b, r value) value {
	A, B, R := asIntTerm(a), asIntTerm(b), asIntTerm(r)
	z := intConst(0)
	abs := func(t *Term) *Term { return tite(mkBool("<", t, z), mkInt("-", t), t) }
	// Euclidean division of a-r by b (exists and is unique for b != 0): a-r = k*b + m, 0 <= m < |b|.
	// Adding it to the path restricts nothing; divisibility is then m == 0.
	k, m := theEngine.freshAux(), theEngine.freshAux()
	d := mkInt("-", A, R)
	theEngine.X.addPC(tor(teq(B, z), tand(teq(d, mkInt("+", mkInt("*", k, B), m)), mkBool("<=", z, m), mkBool("<", m, abs(B)))))
	return boolVal(tand(mkBool("<", abs(R), abs(B)), teq(m, z)))
}

func specArith(op string, a, b, res value) value {
	A, B, R := asIntTerm(a), asIntTerm(b), asIntTerm(res)
	return boolVal(teq(mkInt(op, A, B), R))
}

func specFits(op string, a, b value) value {
	A, B := asIntTerm(a), asIntTerm(b)
	r := mkInt(op, A, B)
	return boolVal(tand(mkBool("<=", intConstBig(new(big.Int).Neg(pow2[63])), r), mkBool("<", r, intConstBig(pow2[63]))))
}

// powTerm: a^e as an Int monomial; e must be a concrete non-negative int.
func powTerm(a, e value) *Term {
	if isSym(e) {
		panic(pathAbort{"SpecPow: symbolic exponent"})
	}
	n := asInt64(e)
	A := asIntTerm(a)
	r := intConst(1)
	for i := int64(0); i < n; i++ {
		if i == 0 {
			r = A
		} else {
			r = mkInt("*", r, A)
		}
	}
	return r
}

// virtualFiles: harness-provided file contents served by the os.Open intrinsic.
var virtualFiles = map[string]string{}

func init() {
	externals["os.Open"] = func(fr *frame, a []value) value {
		name := a[0].(string)
		content, ok := virtualFiles[name]
		if !ok {
			return tuple{(*value)(nil), iface{fr.i.runtimeErrorString, "open " + name + ": no such file or directory"}}
		}
		var c value = &nativeObj{strings.NewReader(content)}
		return tuple{&c, iface{}}
	}
	// formatting to stderr/stdout writers is not the subject of any property: no-ops
	noop := func(fr *frame, a []value) value { return tuple{0, iface{}} }
	externals["fmt.Fprint"] = noop
	externals["fmt.Fprintf"] = noop
	externals["fmt.Fprintln"] = noop
}
