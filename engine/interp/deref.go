package interp

import "go/types"

func mustDeref(t types.Type) types.Type {
	if p, ok := t.Underlying().(*types.Pointer); ok {
		return p.Elem()
	}
	panic("mustDeref: not a pointer: " + t.String())
}
