package interp

// Spike additions on top of the forked x/tools interpreter: exported engine API,
// allow-listed package initialisation, native intrinsics and the native AST bridge.

import (
	"fmt"
	"go/token"
	"go/types"
	"io"
	"os"
	"reflect"
	"regexp"
	"runtime/debug"
	"sort"
	"strings"
	"unsafe"

	"github.com/Syuparn/pangaea/native"
	"github.com/Syuparn/pangaea/parser"
	"golang.org/x/tools/go/ssa"
)

// Engine is a handle on one interpreter instance.
type Engine struct {
	i           *interpreter
	TraceEvents bool
	SharedCells map[*value]string
	cellIDs     map[*value]int
	Events      []SyncEvent
	Steps       int64
	StepLimit   int64
	InitAllow   func(path string) bool
	X           *Explorer
	IntMode     bool
	Params      []value
	Funcs       map[*ssa.Function]int64
	MapOrder    int // 0 = insertion order; 1 = rotations+reversal; 2 = all permutations
	journal     []jent
	journalng   bool

	mapOrderOn  bool
	mapOrderMax int
	// PermutedRanges counts, per function, the map range loops whose order was solver-chosen
	PermutedRanges map[string]int
}

type jent struct {
	addr *value
	old  value
	undo func()
}

func (e *Engine) journalOn() { e.journalng = true; e.journal = e.journal[:0] }

func (e *Engine) journalRollback() {
	e.journalng = false
	for i := len(e.journal) - 1; i >= 0; i-- {
		j := e.journal[i]
		if j.undo != nil {
			j.undo()
		} else {
			*j.addr = j.old
		}
	}
	e.journal = e.journal[:0]
}

func journalUndo(f func()) {
	if theEngine != nil && theEngine.journalng {
		theEngine.journal = append(theEngine.journal, jent{undo: f})
	}
}

func (e *Engine) SetParams(ps ...int) {
	e.Params = nil
	for _, p := range ps {
		e.Params = append(e.Params, p)
	}
}

// Global returns the cell of a package-level variable.
func (e *Engine) Prog() *ssa.Program { return e.i.prog }

var theEngine *Engine

var onceDone = map[*value]bool{}

var syncMaps = map[*value]*omap{}

func syncMapOf(recv value) *omap {
	k := recv.(*value)
	if m, ok := syncMaps[k]; ok {
		return m
	}
	m := makeMap(tEmptyIface, 0).(*omap)
	syncMaps[k] = m
	journalUndo(func() { delete(syncMaps, k) })
	return m
}

// nativeObj wraps an opaque host value (regexp, file, ...).
type nativeObj struct{ v interface{} }

func NewEngine(prog *ssa.Program, allow func(string) bool) *Engine {
	i := &interpreter{
		prog:       prog,
		globals:    make(map[*ssa.Global]*value),
		sizes:      &types.StdSizes{WordSize: 8, MaxAlign: 8},
		goroutines: 1,
	}
	runtimePkg := prog.ImportedPackage("runtime")
	i.runtimeErrorString = runtimePkg.Type("errorString").Object().Type()
	initReflect(i)
	for _, pkg := range prog.AllPackages() {
		for _, m := range pkg.Members {
			if v, ok := m.(*ssa.Global); ok {
				cell := zero(mustDeref(v.Type()))
				i.globals[v] = &cell
			}
		}
	}
	// os.Args as in a real process (package os's initialiser is not run)
	if osPkg := prog.ImportedPackage("os"); osPkg != nil {
		if g, ok := osPkg.Members["Args"].(*ssa.Global); ok {
			*i.globals[g] = []value{"pangaea"}
		}
	}
	e := &Engine{i: i, InitAllow: allow, X: NewExplorer(), Funcs: map[*ssa.Function]int64{}, PermutedRanges: map[string]int{}}
	theEngine = e
	return e
}

// Call runs fn with already-converted args; a target panic is returned as error.
func (e *Engine) Call(fn *ssa.Function, args ...value) (res value, err error) {
	defer func() {
		if r := recover(); r != nil {
			if isEngineAbort(r) {
				panic(r)
			}
			if _, ok := r.(string); ok && theEngine != nil && theEngine.journalng {
				panic(r)
			}
			if os.Getenv("GOSYM_DEBUG") != "" {
				fmt.Fprintf(os.Stderr, "Engine.Call panic: %v\n%s\n", r, debug.Stack())
			}
			switch p := r.(type) {
			case targetPanic:
				err = fmt.Errorf("target panic: %s", toString(p.v))
			default:
				err = fmt.Errorf("panic: %v", r)
			}
		}
	}()
	res = call(e.i, nil, token.NoPos, fn, args)
	return
}

func (e *Engine) ToString(v value) string { return toString(v) }

func isPkgInit(fn *ssa.Function) bool {
	return fn.Synthetic == "package initializer" || (fn.Name() == "init" && fn.Parent() == nil && fn.Signature.Recv() == nil && fn.Synthetic != "")
}

func str(v value) string { return v.(string) }

func strSlice(v value) []string {
	vs := v.([]value)
	out := make([]string, len(vs))
	for i, x := range vs {
		out[i] = x.(string)
	}
	return out
}

func toValSlice(ss []string) []value {
	out := make([]value, len(ss))
	for i, s := range ss {
		out[i] = s
	}
	return out
}

// toNative converts a boxed value into something fmt can print.
func toNative(fr *frame, v value) interface{} {
	switch v := v.(type) {
	case iface:
		if v.t == nil {
			return nil
		}
		// error / Stringer: call the method in the interpreter
		if m := findMethod(fr.i, v.t, "Error"); m != nil {
			return fmtErr{str(call(fr.i, fr, token.NoPos, m, []value{v.v}))}
		}
		if m := findMethod(fr.i, v.t, "String"); m != nil && m.Signature.Params().Len() == 0 {
			return fmtErr{str(call(fr.i, fr, token.NoPos, m, []value{v.v}))}
		}
		if b, ok := v.t.Underlying().(*types.Basic); ok && b.Info()&types.IsString != 0 {
			return v.v
		}
		return toNative(fr, v.v)
	case *nativeObj:
		return v.v
	case structure, array, []value, *value, *omap:
		return toString(v)
	}
	return v
}

type fmtErr struct{ s string }

func (f fmtErr) String() string { return f.s }
func (f fmtErr) Error() string  { return f.s }

func findMethod(i *interpreter, t types.Type, name string) *ssa.Function {
	ms := i.prog.MethodSets.MethodSet(t)
	for k := 0; k < ms.Len(); k++ {
		if ms.At(k).Obj().Name() == name {
			return i.prog.MethodValue(ms.At(k))
		}
	}
	return nil
}

func nativeArgs(fr *frame, v value) []interface{} {
	vs := v.([]value)
	out := make([]interface{}, len(vs))
	for i, x := range vs {
		out[i] = toNative(fr, x)
	}
	return out
}

func errIface(fr *frame, err error) value {
	if err == nil {
		return iface{}
	}
	return iface{fr.i.runtimeErrorString, err.Error()}
}

func init() {
	for k, v := range map[string]externalFn{
		"fmt.Sprintf": func(fr *frame, a []value) value {
			return fmt.Sprintf(str(a[0]), nativeArgs(fr, a[1])...)
		},
		"fmt.Errorf": func(fr *frame, a []value) value {
			return errIface(fr, fmt.Errorf(str(a[0]), nativeArgs(fr, a[1])...))
		},
		"fmt.Sprint": func(fr *frame, a []value) value {
			return fmt.Sprint(nativeArgs(fr, a[0])...)
		},
		"fmt.Sprintln": func(fr *frame, a []value) value {
			return fmt.Sprintln(nativeArgs(fr, a[0])...)
		},
		"errors.New": func(fr *frame, a []value) value {
			return iface{fr.i.runtimeErrorString, str(a[0])}
		},
		"strings.Join":      func(fr *frame, a []value) value { return strings.Join(strSlice(a[0]), str(a[1])) },
		"strings.Split":     func(fr *frame, a []value) value { return toValSlice(strings.Split(str(a[0]), str(a[1]))) },
		"strings.Repeat":    func(fr *frame, a []value) value { return strings.Repeat(str(a[0]), a[1].(int)) },
		"strings.Contains":  func(fr *frame, a []value) value { return strings.Contains(str(a[0]), str(a[1])) },
		"strings.HasPrefix": func(fr *frame, a []value) value { return strings.HasPrefix(str(a[0]), str(a[1])) },
		"strings.HasSuffix": func(fr *frame, a []value) value { return strings.HasSuffix(str(a[0]), str(a[1])) },
		"strings.LastIndex": func(fr *frame, a []value) value {
			if isLenStr(a[0]) {
				return -1 // stub: content abstracted, "not found"
			}
			return strings.LastIndex(str(a[0]), str(a[1]))
		},
		"strings.ToUpper":                  func(fr *frame, a []value) value { return strings.ToUpper(str(a[0])) },
		"strings.Compare":                  func(fr *frame, a []value) value { return strings.Compare(str(a[0]), str(a[1])) },
		"internal/bytealg.IndexByteString": func(fr *frame, a []value) value { return strings.IndexByte(str(a[0]), a[1].(uint8)) },
		"internal/bytealg.CountString":     func(fr *frame, a []value) value { return strings.Count(str(a[0]), string([]byte{a[1].(uint8)})) },
		"internal/bytealg.IndexString":     func(fr *frame, a []value) value { return strings.Index(str(a[0]), str(a[1])) },
		"strings.ToValidUTF8":              func(fr *frame, a []value) value { return strings.ToValidUTF8(str(a[0]), str(a[1])) },
		"strings.Fields":                   func(fr *frame, a []value) value { return toValSlice(strings.Fields(str(a[0]))) },
		"strings.TrimSpace":                func(fr *frame, a []value) value { return strings.TrimSpace(str(a[0])) },
		"strings.TrimPrefix":               func(fr *frame, a []value) value { return strings.TrimPrefix(str(a[0]), str(a[1])) },
		"strings.TrimSuffix":               func(fr *frame, a []value) value { return strings.TrimSuffix(str(a[0]), str(a[1])) },
		"strings.Trim":                     func(fr *frame, a []value) value { return strings.Trim(str(a[0]), str(a[1])) },
		"strings.TrimLeft":                 func(fr *frame, a []value) value { return strings.TrimLeft(str(a[0]), str(a[1])) },
		"strings.TrimRight":                func(fr *frame, a []value) value { return strings.TrimRight(str(a[0]), str(a[1])) },
		"strings.Title":                    func(fr *frame, a []value) value { return strings.Title(str(a[0])) },
		"strings.SplitN":                   func(fr *frame, a []value) value { return toValSlice(strings.SplitN(str(a[0]), str(a[1]), a[2].(int))) },
		"strings.ReplaceAll":               func(fr *frame, a []value) value { return strings.ReplaceAll(str(a[0]), str(a[1]), str(a[2])) },
		"strings.ContainsRune":             func(fr *frame, a []value) value { return strings.ContainsRune(str(a[0]), a[1].(int32)) },
		"strings.ContainsAny":              func(fr *frame, a []value) value { return strings.ContainsAny(str(a[0]), str(a[1])) },
		"strings.IndexAny":                 func(fr *frame, a []value) value { return strings.IndexAny(str(a[0]), str(a[1])) },
		"strings.IndexRune":                func(fr *frame, a []value) value { return strings.IndexRune(str(a[0]), a[1].(int32)) },
		"strings.EqualFold":                func(fr *frame, a []value) value { return strings.EqualFold(str(a[0]), str(a[1])) },
		"sort.Slice": func(fr *frame, a []value) value {
			sl := a[0].(iface).v.([]value)
			less := a[1]
			sort.SliceStable(sl, func(x, y int) bool {
				return call(fr.i, fr, token.NoPos, less, []value{x, y}).(bool)
			})
			return nil
		},
		"sort.SliceStable": func(fr *frame, a []value) value {
			sl := a[0].(iface).v.([]value)
			less := a[1]
			sort.SliceStable(sl, func(x, y int) bool {
				return call(fr.i, fr, token.NoPos, less, []value{x, y}).(bool)
			})
			return nil
		},
		"regexp.MustCompile": func(fr *frame, a []value) value {
			var c value = &nativeObj{regexp.MustCompile(str(a[0]))}
			return &c
		},
		"(*regexp.Regexp).MatchString": func(fr *frame, a []value) value {
			return nativeRegexp(a[0]).MatchString(str(a[1]))
		},
		"(*regexp.Regexp).ReplaceAllString": func(fr *frame, a []value) value {
			return nativeRegexp(a[0]).ReplaceAllString(str(a[1]), str(a[2]))
		},
		"(*regexp.Regexp).FindString": func(fr *frame, a []value) value {
			return nativeRegexp(a[0]).FindString(str(a[1]))
		},
		"(*regexp.Regexp).FindStringSubmatch": func(fr *frame, a []value) value {
			m := nativeRegexp(a[0]).FindStringSubmatch(str(a[1]))
			if m == nil {
				return []value(nil)
			}
			return toValSlice(m)
		},
		"(*regexp.Regexp).FindAllString": func(fr *frame, a []value) value {
			m := nativeRegexp(a[0]).FindAllString(str(a[1]), a[2].(int))
			if m == nil {
				return []value(nil)
			}
			return toValSlice(m)
		},
		"(*regexp.Regexp).FindAllStringSubmatch": func(fr *frame, a []value) value {
			ms := nativeRegexp(a[0]).FindAllStringSubmatch(str(a[1]), a[2].(int))
			if ms == nil {
				return []value(nil)
			}
			out := make([]value, len(ms))
			for i, m := range ms {
				out[i] = toValSlice(m)
			}
			return out
		},
		"(*regexp.Regexp).String":     func(fr *frame, a []value) value { return nativeRegexp(a[0]).String() },
		"(*sync.RWMutex).Lock":        func(fr *frame, a []value) value { theEngine.noteMutex(fr, "lock", a[0]); return nil },
		"(*sync.RWMutex).Unlock":      func(fr *frame, a []value) value { theEngine.noteMutex(fr, "unlock", a[0]); return nil },
		"(*sync.RWMutex).RLock":       func(fr *frame, a []value) value { theEngine.noteMutex(fr, "rlock", a[0]); return nil },
		"(*sync.RWMutex).RUnlock":     func(fr *frame, a []value) value { theEngine.noteMutex(fr, "runlock", a[0]); return nil },
		"encoding/json.Unmarshal":     extJSONUnmarshal,
		"encoding/json.Marshal":       func(fr *frame, a []value) value { panic("unsupported: encoding/json (reflection)") },
		"encoding/json.MarshalIndent": func(fr *frame, a []value) value { panic("unsupported: encoding/json (reflection)") },
		"(*sync.Mutex).Lock":          func(fr *frame, a []value) value { theEngine.noteMutex(fr, "lock", a[0]); return nil },
		"(*sync.Mutex).Unlock":        func(fr *frame, a []value) value { theEngine.noteMutex(fr, "unlock", a[0]); return nil },
		// sync.Map: one ordered map per receiver (the real implementation is lock-free code over
		// atomic pointers; the sequential engine only needs its map semantics)
		"(*sync.Map).Load": func(fr *frame, a []value) value {
			v, ok := syncMapOf(a[0]).lookup(a[1])
			if !ok {
				return tuple{iface{}, false}
			}
			return tuple{v, true}
		},
		"(*sync.Map).Store": func(fr *frame, a []value) value { syncMapOf(a[0]).insert(a[1], a[2]); return nil },
		"(*sync.Map).LoadOrStore": func(fr *frame, a []value) value {
			m := syncMapOf(a[0])
			if v, ok := m.lookup(a[1]); ok {
				return tuple{v, true}
			}
			m.insert(a[1], a[2])
			return tuple{a[2], false}
		},
		"(*sync.Map).Delete": func(fr *frame, a []value) value { syncMapOf(a[0]).delete(a[1]); return nil },
		"(*sync.Once).Do": func(fr *frame, a []value) value {
			k := a[0].(*value)
			if onceDone[k] {
				return nil
			}
			onceDone[k] = true
			journalUndo(func() { delete(onceDone, k) })
			call(fr.i, fr, token.NoPos, a[1], nil)
			return nil
		},
		"sync/atomic.CompareAndSwapInt32": func(fr *frame, a []value) value {
			p := a[0].(*value)
			if (*p).(int32) == a[1].(int32) {
				store(types.Typ[types.Int32], p, a[2])
				return true
			}
			return false
		},
		"sync/atomic.AddInt32": func(fr *frame, a []value) value {
			p := a[0].(*value)
			n := (*p).(int32) + a[1].(int32)
			store(types.Typ[types.Int32], p, n)
			return n
		},
		"sync/atomic.LoadInt32":   func(fr *frame, a []value) value { return *a[0].(*value) },
		"sync/atomic.StoreInt32":  func(fr *frame, a []value) value { store(types.Typ[types.Int32], a[0].(*value), a[1]); return nil },
		"sync/atomic.LoadUint32":  func(fr *frame, a []value) value { return *a[0].(*value) },
		"sync/atomic.StoreUint32": func(fr *frame, a []value) value { store(types.Typ[types.Uint32], a[0].(*value), a[1]); return nil },
		"(embed.FS).Open": func(fr *frame, a []value) value {
			f, err := native.FS.Open(str(a[1]))
			if err != nil {
				return tuple{iface{}, errIface(fr, err)}
			}
			return tuple{iface{nativeFileType(fr.i), &nativeObj{f}}, iface{}}
		},
		"github.com/Syuparn/pangaea/parser.Parse": extParse,
		"path/filepath.Abs": func(fr *frame, a []value) value {
			return tuple{str(a[0]), iface{}}
		},
	} {
		externals[k] = v
	}
}

// nativeFileType is any named type used as dynamic type for opaque handles.
func nativeFileType(i *interpreter) types.Type {
	return i.prog.ImportedPackage("os").Type("File").Object().Type()
}

// invokeNative handles interface method calls on opaque host values.
func invokeNative(fr *frame, recv *nativeObj, meth string, args []value) value {
	switch meth {
	case "Close":
		return iface{}
	}
	panic("invokeNative: unsupported method " + meth)
}

// extParse: parser.Parse(src *parser.Reader) (*ast.Program, error), run natively.
func extParse(fr *frame, a []value) value {
	rd := (*a[0].(*value)).(structure) // parser.Reader{Reader io.Reader; fileName string}
	fileName := rd[1].(string)
	var r io.Reader
	switch rv := rd[0].(iface).v.(type) {
	case *nativeObj:
		r = rv.v.(io.Reader)
	case *value:
		if n, ok := (*rv).(*nativeObj); ok {
			r = n.v.(io.Reader)
		} else if st, ok := (*rv).(structure); ok && len(st) == 3 {
			// an interpreted *strings.Reader {s string; i int64; prevRune int}
			str, ok1 := st[0].(string)
			off, ok2 := st[1].(int64)
			if !ok1 || !ok2 {
				panic(fmt.Sprintf("extParse: unsupported reader structure %v", st))
			}
			r = strings.NewReader(str[off:])
		} else {
			panic(fmt.Sprintf("extParse: unsupported reader %T", *rv))
		}
	default:
		panic(fmt.Sprintf("extParse: unsupported reader %T", rv))
	}
	src, rerr := io.ReadAll(r)
	if rerr != nil {
		panic("extParse: " + rerr.Error())
	}
	key := fileName + "\x00" + string(src)
	if c, ok := parseCache[key]; ok {
		return c
	}
	prog, err := parser.Parse(parser.NewReader(strings.NewReader(string(src)), fileName))
	var res value
	if err != nil {
		res = tuple{zero(types.NewPointer(astType(fr.i, "Program"))), errIface(fr, err)}
	} else {
		// the converted AST outlives the path (cache): its construction is not journalled
		saved := theEngine.journalng
		theEngine.journalng = false
		c := &aconv{i: fr.i, ptrs: map[uintptr]*value{}}
		res = tuple{c.conv(reflect.ValueOf(prog)), iface{}}
		theEngine.journalng = saved
	}
	parseCache[key] = res
	return res
}

// parseCache: programs parsed through the native bridge, by file name + source text.
// ASTs are not written to by the evaluator (and the store journal restores any write).
var parseCache = map[string]value{}

func astType(i *interpreter, name string) types.Type {
	return i.prog.ImportedPackage("github.com/Syuparn/pangaea/ast").Type(name).Object().Type()
}

// conv converts host values (AST) into boxed interpreter values.
type aconv struct {
	i    *interpreter
	ptrs map[uintptr]*value
}

func (c *aconv) typeOf(t reflect.Type) types.Type {
	switch t.Kind() {
	case reflect.Ptr:
		return types.NewPointer(c.typeOf(t.Elem()))
	}
	if t.PkgPath() != "" {
		pkg := c.i.prog.ImportedPackage(t.PkgPath())
		if pkg == nil {
			panic("conv: unknown package " + t.PkgPath())
		}
		m := pkg.Type(t.Name())
		if m == nil {
			panic("conv: unknown type " + t.String())
		}
		return m.Object().Type()
	}
	switch t.Kind() {
	case reflect.String:
		return types.Typ[types.String]
	case reflect.Int:
		return types.Typ[types.Int]
	case reflect.Int64:
		return types.Typ[types.Int64]
	case reflect.Float64:
		return types.Typ[types.Float64]
	case reflect.Bool:
		return types.Typ[types.Bool]
	}
	panic("conv: unsupported dynamic type " + t.String())
}

func (c *aconv) conv(v reflect.Value) value {
	switch v.Kind() {
	case reflect.Bool:
		return v.Bool()
	case reflect.Int:
		return int(v.Int())
	case reflect.Int64:
		return v.Int()
	case reflect.Float64:
		return v.Float()
	case reflect.String:
		return v.String()
	case reflect.Ptr:
		if v.IsNil() {
			return (*value)(nil)
		}
		if p, ok := c.ptrs[v.Pointer()]; ok {
			return p
		}
		cell := new(value)
		c.ptrs[v.Pointer()] = cell
		*cell = c.conv(v.Elem())
		return cell
	case reflect.Interface:
		if v.IsNil() {
			return iface{}
		}
		e := v.Elem()
		return iface{c.typeOf(e.Type()), c.conv(e)}
	case reflect.Struct:
		s := make(structure, v.NumField())
		for k := 0; k < v.NumField(); k++ {
			f := v.Field(k)
			if !f.CanInterface() {
				f = reflect.NewAt(f.Type(), unsafe.Pointer(f.UnsafeAddr())).Elem()
			}
			s[k] = c.conv(f)
		}
		return s
	case reflect.Slice:
		if v.IsNil() {
			return []value(nil)
		}
		s := make([]value, v.Len())
		for k := range s {
			s[k] = c.conv(v.Index(k))
		}
		return s
	case reflect.Map:
		if v.IsNil() {
			return (*omap)(nil)
		}
		m := makeMap(c.typeOf(v.Type().Key()), 0).(*omap)
		// deterministic order: AST maps are keyed by pointer; order by source position
		type kv struct{ k, v reflect.Value }
		var kvs []kv
		it := v.MapRange()
		for it.Next() {
			kvs = append(kvs, kv{it.Key(), it.Value()})
		}
		sort.SliceStable(kvs, func(a, b int) bool { return mapKeyLess(kvs[a].k, kvs[b].k) })
		for _, e := range kvs {
			m.insert(c.conv(e.k), c.conv(e.v))
		}
		return m
	}
	panic("conv: unsupported kind " + v.Kind().String() + " " + v.Type().String())
}

// Override reroutes calls of the named function to a harness function.
func Override(name string, to *ssa.Function) {
	externals[name] = func(fr *frame, a []value) value {
		return call(fr.i, fr, token.NoPos, to, a)
	}
}

// mapKeyLess orders reflected map keys deterministically (AST maps are keyed by
// *ast.Ident: order by source position, then name).
func mapKeyLess(a, b reflect.Value) bool {
	ka, kb := keyOrd(a), keyOrd(b)
	return ka < kb
}

func keyOrd(v reflect.Value) string {
	if v.Kind() == reflect.Ptr && !v.IsNil() {
		e := v.Elem()
		if e.Kind() == reflect.Struct {
			if src := e.FieldByName("Src"); src.IsValid() && src.Kind() == reflect.Ptr && !src.IsNil() {
				pos := src.Elem().FieldByName("Pos")
				return fmt.Sprintf("%08d:%08d:%v", pos.FieldByName("Line").Int(), pos.FieldByName("Column").Int(), e.FieldByName("Value"))
			}
			if val := e.FieldByName("Value"); val.IsValid() {
				return fmt.Sprintf("z:%v", val)
			}
		}
	}
	return fmt.Sprintf("%v", v)
}

// permute lets the solver pick the iteration order of a map range.
func (e *Engine) permute(ents []*oentry) []*oentry {
	n := len(ents)
	out := make([]*oentry, 0, n)
	if e.MapOrder == 1 {
		// rotations and the reversal: n+1 orders
		c := e.internalChoice(n + 1)
		if c == n {
			for i := n - 1; i >= 0; i-- {
				out = append(out, ents[i])
			}
			return out
		}
		return append(append(out, ents[c:]...), ents[:c]...)
	}
	rest := append([]*oentry{}, ents...)
	for len(rest) > 1 {
		c := e.internalChoice(len(rest))
		out = append(out, rest[c])
		rest = append(rest[:c:c], rest[c+1:]...)
	}
	return append(out, rest[0])
}

// internalChoice: a solver-chosen value in [0,n) that is not part of the nondet vector.
func (e *Engine) internalChoice(n int) int {
	v := e.freshVar(types.Int64, "")
	x := e.X
	eq := func(i int) *Term {
		if v.t.s == sInt {
			return teq(v.t, intConst(int64(i)))
		}
		return teq(v.t, bvConst(64, uint64(i)))
	}
	for i := 0; i < n-1; i++ {
		if e.decide(eq(i)) {
			return i
		}
	}
	x.addPC(eq(n - 1))
	return n - 1
}

func nativeRegexp(v value) *regexp.Regexp {
	p, ok := v.(*value)
	if !ok || p == nil {
		panic("unsupported: regexp that was not created through regexp.MustCompile in an initialised package")
	}
	n, ok := (*p).(*nativeObj)
	if !ok {
		panic("unsupported: regexp value is not a native handle")
	}
	return n.v.(*regexp.Regexp)
}

// Strings converts an interpreter []string value.
func (e *Engine) Strings(v interface{}) []string {
	vs, _ := v.([]value)
	out := make([]string, len(vs))
	for i, x := range vs {
		out[i], _ = x.(string)
	}
	return out
}
