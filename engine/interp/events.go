package interp

// gosym: trace of synchronisation and shared-table events (used by the C20 encoder).
// While Engine.TraceEvents is set, every sync.(RW)Mutex operation on a package-level mutex
// and every Lookup / MapUpdate / delete / range / len on a map loaded from a package-level
// variable is appended to Engine.Events, in execution order, with the key and whether the
// key was present.  The trace is the real code's own path for the given concrete inputs.

import (
	"fmt"
	"go/token"

	"golang.org/x/tools/go/ssa"
)

type SyncEvent struct {
	Kind  string `json:"kind"` // lock unlock rlock runlock read write
	Obj   string `json:"obj"`  // package-level variable
	Key   string `json:"key,omitempty"`
	Hit   bool   `json:"hit,omitempty"` // read: the key was present
	Where string `json:"where,omitempty"`
}

func globalOfValue(v ssa.Value) *ssa.Global {
	if u, ok := v.(*ssa.UnOp); ok && u.Op == token.MUL {
		if g, ok := u.X.(*ssa.Global); ok {
			return g
		}
	}
	return nil
}

func (e *Engine) noteMap(fr *frame, kind string, mv ssa.Value, key value, hit bool, pos token.Pos) {
	if e == nil || !e.TraceEvents {
		return
	}
	g := globalOfValue(mv)
	if g == nil {
		return
	}
	k := ""
	if key != nil {
		k = fmt.Sprint(toString(key))
	}
	e.Events = append(e.Events, SyncEvent{Kind: kind, Obj: g.String(), Key: k, Hit: hit, Where: fr.i.prog.Fset.Position(pos).String()})
}

func (e *Engine) noteMutex(fr *frame, kind string, ptr value) {
	if e == nil || !e.TraceEvents {
		return
	}
	name := "?"
	if p, ok := ptr.(*value); ok {
		for g, cell := range fr.i.globals {
			if cell == p {
				name = g.String()
				break
			}
		}
	}
	e.Events = append(e.Events, SyncEvent{Kind: kind, Obj: name})
}
