package interp

// gosym: trace of synchronisation and shared-table events (used by the C20 encoder).
// While Engine.TraceEvents is set, every sync.(RW)Mutex operation on a package-level mutex
// and every Lookup / MapUpdate / delete / range / len on a map loaded from a package-level
// variable is appended to Engine.Events, in execution order, with the key and whether the
// key was present.  The trace is the real code's own path for the given concrete inputs.

import (
	"fmt"
	"go/token"
	"go/types"
	"sort"
	"strings"

	"golang.org/x/tools/go/ssa"
)

type SyncEvent struct {
	Kind  string `json:"kind"` // lock unlock rlock runlock read write
	Obj   string `json:"obj"`  // package-level variable
	Key   string `json:"key,omitempty"`
	Hit   bool   `json:"hit,omitempty"` // read: the key was present
	Where string `json:"where,omitempty"`
}

func globalOfValue(v ssa.Value) *ssa.Global {
	if u, ok := v.(*ssa.UnOp); ok && u.Op == token.MUL {
		if g, ok := u.X.(*ssa.Global); ok {
			return g
		}
	}
	return nil
}

func (e *Engine) noteMap(fr *frame, kind string, mv ssa.Value, key value, hit bool, pos token.Pos) {
	if e == nil || !e.TraceEvents {
		return
	}
	g := globalOfValue(mv)
	if g == nil {
		return
	}
	k := ""
	if key != nil {
		k = fmt.Sprint(toString(key))
	}
	e.Events = append(e.Events, SyncEvent{Kind: kind, Obj: g.String(), Key: k, Hit: hit, Where: fr.i.prog.Fset.Position(pos).String()})
}

func (e *Engine) noteMutex(fr *frame, kind string, ptr value) {
	if e == nil || !e.TraceEvents {
		return
	}
	name := "?"
	if p, ok := ptr.(*value); ok {
		for g, cell := range fr.i.globals {
			if cell == p {
				name = g.String()
				break
			}
		}
	}
	e.Events = append(e.Events, SyncEvent{Kind: kind, Obj: name})
}

// ---------------------------------------------------------------- shared cells
//
// MarkShared records every memory cell reachable from the package-level variables of
// the packages whose path starts with prefix (mutexes excluded).  While TraceEvents is
// set, loads and stores of marked cells are logged as read / write events on
// "cell:<root variable>" with the cell's identity as key, so that unsynchronised state
// other than maps (a shared hasher, buffer, counter ...) is visible to the C20 encoder.
// Cells allocated after MarkShared are private to the call that allocates them.

func isSyncType(t types.Type) bool {
	if n, ok := t.(*types.Named); ok && n.Obj().Pkg() != nil {
		p := n.Obj().Pkg().Path()
		return p == "sync" || p == "sync/atomic"
	}
	return false
}

func (e *Engine) MarkShared(prefix string) int {
	e.SharedCells = map[*value]string{}
	e.cellIDs = map[*value]int{}
	seenMap := map[*omap]bool{}
	type item struct {
		v    value
		root string
	}
	var work []item
	markCell := func(c *value, root string) {
		if c == nil {
			return
		}
		if _, ok := e.SharedCells[c]; ok {
			return
		}
		e.SharedCells[c] = root
		e.cellIDs[c] = len(e.cellIDs)
		work = append(work, item{*c, root})
	}
	var gs []*ssa.Global
	for g := range e.i.globals {
		gs = append(gs, g)
	}
	sort.Slice(gs, func(i, j int) bool { return gs[i].String() < gs[j].String() })
	for _, g := range gs {
		if g.Pkg == nil || !strings.HasPrefix(g.Pkg.Pkg.Path(), prefix) || strings.Contains(g.Pkg.Pkg.Path(), "zzverif") {
			continue
		}
		if pt, ok := g.Type().(*types.Pointer); ok && isSyncType(pt.Elem()) {
			continue
		}
		markCell(e.i.globals[g], g.String())
	}
	for len(work) > 0 {
		it := work[len(work)-1]
		work = work[:len(work)-1]
		switch v := it.v.(type) {
		case *value:
			markCell(v, it.root)
		case structure:
			for i := range v {
				markCell(&v[i], it.root)
			}
		case array:
			for i := range v {
				markCell(&v[i], it.root)
			}
		case []value:
			for i := range v {
				markCell(&v[i], it.root)
			}
		case iface:
			work = append(work, item{v.v, it.root})
		case *omap:
			if v != nil && !seenMap[v] {
				seenMap[v] = true
				for _, en := range v.ents {
					if !en.dead {
						work = append(work, item{en.key, it.root}, item{en.val, it.root})
					}
				}
			}
		}
	}
	return len(e.SharedCells)
}

func (e *Engine) noteCell(fr *frame, kind string, addr *value, pos token.Pos) {
	if e == nil || !e.TraceEvents || e.SharedCells == nil {
		return
	}
	root, ok := e.SharedCells[addr]
	if !ok {
		return
	}
	e.Events = append(e.Events, SyncEvent{Kind: kind, Obj: "cell:" + root, Key: fmt.Sprintf("#%d", e.cellIDs[addr]), Where: fr.i.prog.Fset.Position(pos).String()})
}
