package interp

// gosym: solver pipe, decision-prefix DFS, assertions, known-finding regions.

import (
	"bufio"
	"bytes"
	"fmt"
	"go/types"
	"io"
	"math"
	"math/big"
	"os"
	"os/exec"
	"sort"
	"strings"
	"time"
)

// ---------------------------------------------------------------- solver

const poolSize = 192

type Solver struct {
	cmd       *exec.Cmd
	in        io.WriteCloser
	out       *bufio.Reader
	depth     int
	Queries   int
	Sat       int
	Unsat     int
	Unknown   int
	Time      time.Duration
	Bin       string
	logf      *os.File
	stack     []*Term
	lines     chan string
	timeoutMs int
	Restarts  int
	// one-shot fallback solvers tried when the incremental solver answers unknown
	Fallback   []string
	FallbackMs int
	Fallbacks  int
	FallbackOK int
}

func NewSolver(bin string, timeoutMs int, logPath string) *Solver {
	s := &Solver{Bin: bin, timeoutMs: timeoutMs}
	if logPath != "" {
		s.logf, _ = os.Create(logPath)
	}
	s.start()
	return s
}

func (s *Solver) start() {
	bin, timeoutMs := s.Bin, s.timeoutMs
	var cmd *exec.Cmd
	switch {
	case strings.Contains(bin, "cvc5"):
		cmd = exec.Command(bin, "--incremental", "--lang=smt2", fmt.Sprintf("--tlimit-per=%d", timeoutMs), "--fp-exp")
	default:
		cmd = exec.Command(bin, "-in", fmt.Sprintf("-t:%d", timeoutMs))
	}
	in, _ := cmd.StdinPipe()
	outp, _ := cmd.StdoutPipe()
	cmd.Stderr = os.Stderr
	if err := cmd.Start(); err != nil {
		panic(err)
	}
	s.cmd, s.in, s.out = cmd, in, bufio.NewReader(outp)
	s.lines = make(chan string, 64)
	go func(r *bufio.Reader, ch chan string) {
		for {
			l, err := r.ReadString('\n')
			if err != nil {
				close(ch)
				return
			}
			ch <- strings.TrimSpace(l)
		}
	}(s.out, s.lines)
	var sb strings.Builder
	if strings.Contains(bin, "cvc5") {
		sb.WriteString("(set-logic ALL)\n(set-option :produce-models true)\n")
	}
	for i := 0; i < poolSize; i++ {
		fmt.Fprintf(&sb, "(declare-const i%d (_ BitVec 64))\n(declare-const b%d Bool)\n(declare-const n%d Int)\n(declare-const q%d Int)\n", i, i, i, i)
	}
	s.send(sb.String())
	s.depth = 0
}

// restart kills a solver that ignores its soft timeout and rebuilds the assertion stack.
func (s *Solver) restart() {
	s.cmd.Process.Kill()
	s.cmd.Wait()
	s.Restarts++
	st := s.stack
	s.stack = nil
	s.start()
	for _, c := range st {
		s.push(c)
	}
}

func (s *Solver) Close() {
	s.in.Close()
	s.cmd.Wait()
	if s.logf != nil {
		s.logf.Close()
	}
}

func (s *Solver) send(str string) {
	if s.logf != nil {
		s.logf.WriteString(str)
	}
	// write from a goroutine: a solver that is busy and not reading must not block the
	// engine (the read side has the watchdog; a killed solver makes the write fail)
	in := s.in
	done := make(chan struct{})
	go func() { io.WriteString(in, str); close(done) }()
	select {
	case <-done:
	case <-time.After(time.Duration(s.timeoutMs)*time.Millisecond*2 + 10*time.Second):
		panic(solverHang{})
	}
}

type solverHang struct{}

func (s *Solver) readLine() string {
	grace := time.Duration(s.timeoutMs)*time.Millisecond*2 + 5*time.Second
	select {
	case l, ok := <-s.lines:
		if !ok {
			panic("solver died")
		}
		return l
	case <-time.After(grace):
		panic(solverHang{})
	}
}

// readSexp reads one balanced s-expression (may span lines).
func (s *Solver) readSexp() string {
	var sb strings.Builder
	depth := 0
	started := false
	for {
		l := s.readLine()
		sb.WriteString(l)
		sb.WriteByte(' ')
		for _, c := range l {
			if c == '(' {
				depth++
				started = true
			} else if c == ')' {
				depth--
			}
		}
		if (started && depth <= 0) || (!started && l != "") {
			return sb.String()
		}
	}
}

func (s *Solver) push(c *Term) {
	var sb strings.Builder
	sb.WriteString("(push 1)\n(assert ")
	c.smt(&sb)
	sb.WriteString(")\n")
	s.stack = append(s.stack, c)
	func() {
		defer func() {
			if r := recover(); r != nil {
				if _, ok := r.(solverHang); ok {
					s.stack = s.stack[:len(s.stack)-1]
					s.restart()
					s.stack = append(s.stack, c)
					s.send(sb.String())
					return
				}
				panic(r)
			}
		}()
		s.send(sb.String())
	}()
	s.depth++
}

func (s *Solver) popAll() {
	if s.depth > 0 {
		s.send(fmt.Sprintf("(pop %d)\n", s.depth))
		s.depth = 0
	}
	s.stack = s.stack[:0]
}

// check: satisfiability of (current stack ∧ extra...). Returns sat/unsat/unknown.
// When want != nil and the result is sat, the values of those terms are returned.
func (s *Solver) check(extra []*Term, want []*Term) (string, []string) {
	t0 := time.Now()
	var sb strings.Builder
	sb.WriteString("(push 1)\n")
	for _, c := range extra {
		sb.WriteString("(assert ")
		c.smt(&sb)
		sb.WriteString(")\n")
	}
	sb.WriteString("(check-sat)\n")
	var res string
	hung := false
	func() {
		defer func() {
			if r := recover(); r != nil {
				if _, ok := r.(solverHang); ok {
					hung = true
					return
				}
				panic(r)
			}
		}()
		s.send(sb.String())
		res = s.readLine()
	}()
	if hung {
		s.restart()
		s.Queries++
		r, v := s.oneShot(extra, want)
		switch r {
		case "sat":
			s.Sat++
		case "unsat":
			s.Unsat++
		default:
			s.Unknown++
		}
		s.Time += time.Since(t0)
		return r, v
	}
	for strings.HasPrefix(res, "(error") || res == "" {
		if strings.HasPrefix(res, "(error") {
			fmt.Fprintln(os.Stderr, "SOLVER ERROR:", res)
			s.Unknown++
			s.Queries++
			s.send("(pop 1)\n")
			s.Time += time.Since(t0)
			return "unknown", nil
		}
		res = s.readLine()
	}
	s.Queries++
	var vals []string
	switch res {
	case "sat":
		s.Sat++
		if len(want) > 0 {
			var q strings.Builder
			q.WriteString("(get-value (")
			for _, v := range want {
				v.smt(&q)
				q.WriteByte(' ')
			}
			q.WriteString("))\n")
			s.send(q.String())
			vals = parseValues(s.readSexp(), len(want))
		}
	case "unsat":
		s.Unsat++
	default:
		res = "unknown"
	}
	s.send("(pop 1)\n")
	if res == "unknown" {
		res, vals = s.oneShot(extra, want)
		switch res {
		case "sat":
			s.Sat++
		case "unsat":
			s.Unsat++
		default:
			s.Unknown++
		}
	}
	s.Time += time.Since(t0)
	return res, vals
}

// oneShot re-asks the query (whole stack + extra) to fresh solver processes: their
// non-incremental cores decide non-linear integer queries the incremental core gives up on.
func (s *Solver) oneShot(extra []*Term, want []*Term) (string, []string) {
	if len(s.Fallback) == 0 {
		return "unknown", nil
	}
	s.Fallbacks++
	var sb strings.Builder
	sb.WriteString("(set-logic ALL)\n(set-option :produce-models true)\n")
	names := map[string]bool{}
	all := append(append([]*Term{}, s.stack...), extra...)
	for _, t := range all {
		t.vars(names)
	}
	for _, t := range want {
		t.vars(names)
	}
	var ns []string
	for n := range names {
		ns = append(ns, n)
	}
	sort.Strings(ns)
	for _, n := range ns {
		switch n[0] {
		case 'i':
			fmt.Fprintf(&sb, "(declare-const %s (_ BitVec 64))\n", n)
		case 'b':
			fmt.Fprintf(&sb, "(declare-const %s Bool)\n", n)
		default:
			fmt.Fprintf(&sb, "(declare-const %s Int)\n", n)
		}
	}
	for _, t := range all {
		sb.WriteString("(assert ")
		t.smt(&sb)
		sb.WriteString(")\n")
	}
	sb.WriteString("(check-sat)\n")
	if len(want) > 0 {
		sb.WriteString("(get-value (")
		for _, v := range want {
			v.smt(&sb)
			sb.WriteByte(' ')
		}
		sb.WriteString("))\n")
	}
	f, err := os.CreateTemp("", "gosym-q-*.smt2")
	if err != nil {
		return "unknown", nil
	}
	defer os.Remove(f.Name())
	f.WriteString(sb.String())
	f.Close()
	ms := s.FallbackMs
	if ms == 0 {
		ms = 30000
	}
	for _, bin := range s.Fallback {
		var cmd *exec.Cmd
		if strings.Contains(bin, "cvc5") {
			cmd = exec.Command(bin, fmt.Sprintf("--tlimit=%d", ms), "--fp-exp", f.Name())
		} else {
			cmd = exec.Command(bin, fmt.Sprintf("-t:%d", ms), f.Name())
		}
		var outb bytes.Buffer
		cmd.Stdout = &outb
		if err := cmd.Start(); err != nil {
			continue
		}
		done := make(chan struct{})
		go func() { cmd.Wait(); close(done) }()
		select {
		case <-done:
		case <-time.After(time.Duration(ms)*time.Millisecond + 5*time.Second):
			cmd.Process.Kill()
			<-done
		}
		txt := strings.TrimSpace(outb.String())
		if strings.Contains(txt, "(error") && !strings.HasPrefix(txt, "unsat") {
			if !strings.HasPrefix(txt, "sat") {
				continue
			}
		}
		switch {
		case strings.HasPrefix(txt, "unsat"):
			s.FallbackOK++
			return "unsat", nil
		case strings.HasPrefix(txt, "sat"):
			var vals []string
			if len(want) > 0 {
				rest := strings.TrimSpace(strings.TrimPrefix(txt, "sat"))
				if strings.HasPrefix(rest, "(error") {
					continue
				}
				vals = parseValues(rest, len(want))
				if len(vals) != len(want) {
					continue
				}
			}
			s.FallbackOK++
			return "sat", vals
		}
	}
	return "unknown", nil
}

// parseValues splits "((t1 v1) (t2 v2) ...)" into the value strings.
func parseValues(sx string, n int) []string {
	sx = strings.TrimSpace(sx)
	// strip outer parens
	if len(sx) >= 2 {
		sx = sx[1 : len(sx)-1]
	}
	var out []string
	i := 0
	for i < len(sx) {
		if sx[i] != '(' {
			i++
			continue
		}
		// pair starts; find matching close
		d := 0
		j := i
		for ; j < len(sx); j++ {
			if sx[j] == '(' {
				d++
			} else if sx[j] == ')' {
				d--
				if d == 0 {
					break
				}
			}
		}
		pair := sx[i+1 : j]
		// pair = "<term> <value>"; term is itself balanced; split at the top-level boundary
		k := 0
		if pair[0] == '(' {
			dd := 0
			for k = 0; k < len(pair); k++ {
				if pair[k] == '(' {
					dd++
				} else if pair[k] == ')' {
					dd--
					if dd == 0 {
						k++
						break
					}
				}
			}
		} else {
			k = strings.IndexByte(pair, ' ')
		}
		out = append(out, strings.TrimSpace(pair[k:]))
		i = j + 1
	}
	return out
}

// parseModelValue decodes an SMT value into (uint64 bits, int64 ok for Int).
func parseModelValue(val string) (u uint64, bi *big.Int) {
	val = strings.TrimSpace(val)
	switch {
	case strings.HasPrefix(val, "#x"):
		fmt.Sscanf(val[2:], "%x", &u)
	case strings.HasPrefix(val, "#b"):
		fmt.Sscanf(val[2:], "%b", &u)
	case val == "true":
		u = 1
	case val == "false":
		u = 0
	default:
		// Int: "5" or "(- 5)"
		neg := false
		v := val
		if strings.HasPrefix(v, "(-") {
			neg = true
			v = strings.TrimSpace(strings.TrimSuffix(strings.TrimPrefix(v, "(-"), ")"))
		}
		bi = new(big.Int)
		if _, ok := bi.SetString(v, 10); !ok {
			bi = nil
			return
		}
		if neg {
			bi.Neg(bi)
		}
		u = new(big.Int).And(bi, new(big.Int).SetUint64(math.MaxUint64)).Uint64()
		if bi.Sign() < 0 {
			u = uint64(bi.Int64())
		}
	}
	return
}

// ---------------------------------------------------------------- exploration

type pathAbort struct{ why string }

func isEngineAbort(r interface{}) bool {
	_, ok := r.(pathAbort)
	return ok
}

type pathVar struct {
	t    *Term
	kind string // "int64" "bool" "float64" — consumed by the nondet API; "" = internal
}

type VecEntry struct {
	Kind string `json:"k"`
	Val  string `json:"v"` // decimal (int64 as signed, float64 as bits uint64, bool 0/1)
}

type Finding struct {
	Func    string     `json:"func,omitempty"`
	Params  []int      `json:"params"`
	Kind    string     `json:"kind"` // "violation" | "known"
	Region  string     `json:"region,omitempty"`
	Msg     string     `json:"msg"`
	Tag     string     `json:"tag"`
	Vector  []VecEntry `json:"vector"`
	PC      string     `json:"pc,omitempty"`
	Count   int        `json:"count"`
	Outside bool       `json:"outside_known,omitempty"`
}

type Sample struct {
	Func   string     `json:"func,omitempty"`
	Params []int      `json:"params"`
	Tag    string     `json:"tag"`
	PC     string     `json:"pc"`
	Vector []VecEntry `json:"vector"`
	Obs    string     `json:"obs,omitempty"`
}

type Bounds struct {
	MaxPaths int
	MaxSteps int64
	Deadline time.Time
}

type Explorer struct {
	S         *Solver
	prefix    []bool
	pos       int
	pc        []*Term
	queue     [][]bool
	vars      []pathVar
	nI, nB    int
	nN, nQ    int
	regions   []regionTerm
	obs       []string
	divCache  map[[2]*Term][2]*Term
	mulOrigin map[*Term][2]*Term
	deadline  time.Time

	KnownNames map[string]bool // region names with status "known"

	Paths        int
	Completed    int
	SymPaths     int // completed paths whose pc mentions a variable
	Aborted      map[string]int
	Decisions    int
	Asserts      int
	Discharged   int
	AssertUnk    int
	AssertSites  map[string]int
	Reached      map[string]int
	Findings     map[string]*Finding
	Samples      []Sample
	MaxSamples   int
	Tag          string
	CurParams    []int
	BoundHit     bool
	QueueLeft    int
	pathAsserted int
}

type regionTerm struct {
	name string
	t    *Term
}

func NewExplorer() *Explorer {
	return &Explorer{Aborted: map[string]int{}, AssertSites: map[string]int{}, Reached: map[string]int{}, Findings: map[string]*Finding{}, KnownNames: map[string]bool{}, MaxSamples: 24}
}

func (x *Explorer) addPC(c *Term) {
	if c.op == "true" {
		return
	}
	x.pc = append(x.pc, c)
	x.S.push(c)
}

func (e *Engine) decide(c *Term) bool {
	x := e.X
	switch c.op {
	case "true":
		return true
	case "false":
		return false
	}
	if x.pos < len(x.prefix) {
		b := x.prefix[x.pos]
		x.pos++
		if b {
			x.addPC(c)
		} else {
			x.addPC(tnot(c))
		}
		return b
	}
	if !x.deadline.IsZero() && time.Now().After(x.deadline) {
		x.BoundHit = true
		panic(pathAbort{"time bound of the job reached inside a path"})
	}
	x.Decisions++
	rT, _ := x.S.check([]*Term{c}, nil)
	var rF string
	if rT == "unsat" {
		rF = "sat" // pc is sat by construction
	} else {
		rF, _ = x.S.check([]*Term{tnot(c)}, nil)
	}
	if rT == "unknown" || rF == "unknown" {
		panic(pathAbort{"solver unknown at branch"})
	}
	canT, canF := rT == "sat", rF == "sat"
	switch {
	case canT && canF:
		alt := append(append([]bool{}, x.prefix[:x.pos]...), false)
		x.queue = append(x.queue, alt)
		x.prefix = append(x.prefix[:x.pos], true)
	case canT:
		x.prefix = append(x.prefix[:x.pos], true)
	case canF:
		x.prefix = append(x.prefix[:x.pos], false)
	default:
		panic(pathAbort{"infeasible path"})
	}
	b := x.prefix[x.pos]
	x.pos++
	if b {
		x.addPC(c)
	} else {
		x.addPC(tnot(c))
	}
	return b
}

func (e *Engine) freshVar(k types.BasicKind, api string) *symv {
	x := e.X
	var t *Term
	switch {
	case k == types.Bool:
		if x.nB >= poolSize {
			panic(pathAbort{"variable pool exhausted"})
		}
		t = &Term{op: "var", s: sBool, name: fmt.Sprintf("b%d", x.nB)}
		x.nB++
	case k == types.Float64:
		if x.nI >= poolSize {
			panic(pathAbort{"variable pool exhausted"})
		}
		bits := &Term{op: "var", s: sBV, w: 64, name: fmt.Sprintf("i%d", x.nI)}
		x.nI++
		x.vars = append(x.vars, pathVar{bits, api})
		return &symv{k, mkFP("(_ to_fp 11 53)", bits)}
	case e.IntMode:
		if x.nN >= poolSize {
			panic(pathAbort{"variable pool exhausted"})
		}
		t = &Term{op: "var", s: sInt, name: fmt.Sprintf("n%d", x.nN)}
		x.nN++
		w, signed := kindInfo(k)
		if signed {
			x.addPC(tand(mkBool("<=", intConstBig(new(big.Int).Neg(pow2[w-1])), t), mkBool("<", t, intConstBig(pow2[w-1]))))
		} else {
			x.addPC(tand(mkBool("<=", intConst(0), t), mkBool("<", t, intConstBig(pow2[w]))))
		}
	default:
		if x.nI >= poolSize {
			panic(pathAbort{"variable pool exhausted"})
		}
		t = &Term{op: "var", s: sBV, w: 64, name: fmt.Sprintf("i%d", x.nI)}
		x.nI++
		w, _ := kindInfo(k)
		x.vars = append(x.vars, pathVar{t, api})
		if w < 64 {
			return &symv{k, mkBV(fmt.Sprintf("(_ extract %d 0)", w-1), w, t)}
		}
		return &symv{k, t}
	}
	x.vars = append(x.vars, pathVar{t, api})
	return &symv{k, t}
}

func (e *Engine) freshAux() *Term {
	x := e.X
	if x.nQ >= poolSize {
		panic(pathAbort{"variable pool exhausted"})
	}
	t := &Term{op: "var", s: sInt, name: fmt.Sprintf("q%d", x.nQ)}
	x.nQ++
	return t
}

// concretizeIndex: idx symbolic, valid range [0,n). Out of range -> Go panic path.
func (e *Engine) concretizeIndex(idx *symv, n int) int {
	var inRange *Term
	var eqc func(i int) *Term
	if idx.t.s == sInt {
		inRange = tand(mkBool("<=", intConst(0), idx.t), mkBool("<", idx.t, intConst(int64(n))))
		eqc = func(i int) *Term { return teq(idx.t, intConst(int64(i))) }
	} else {
		w := idx.t.w
		inRange = mkBool("bvult", idx.t, bvConst(w, uint64(n)))
		eqc = func(i int) *Term { return teq(idx.t, bvConst(w, uint64(i))) }
	}
	if !e.decide(inRange) {
		panic(runtimeErrString(fmt.Sprintf("index out of range [symbolic] with length %d", n)))
	}
	for i := 0; i < n-1; i++ {
		if e.decide(eqc(i)) {
			return i
		}
	}
	return n - 1
}

// concretize an arbitrary symbolic int by enumeration of models (bounded).
func (e *Engine) concretize(s *symv) uint64 {
	if s.t.s == sFP || s.t.s == sBool {
		panic(pathAbort{"concretize: non-integer"})
	}
	for tries := 0; tries < 40; tries++ {
		r, vals := e.X.S.check(nil, []*Term{s.t})
		if r != "sat" {
			panic(pathAbort{"concretize: pc not sat"})
		}
		u, bi := parseModelValue(vals[0])
		var c *Term
		if s.t.s == sInt {
			c = teq(s.t, intConstBig(bi))
		} else {
			c = teq(s.t, bvConst(s.t.w, u))
		}
		if e.decide(c) {
			return u
		}
	}
	panic(pathAbort{"concretize: too many values"})
}

// Explore runs fn over all feasible paths within the bounds.
func (e *Engine) Explore(run func(), b Bounds) {
	x := e.X
	x.queue = [][]bool{{}}
	x.deadline = b.Deadline
	for len(x.queue) > 0 {
		if x.Paths >= b.MaxPaths || (!b.Deadline.IsZero() && time.Now().After(b.Deadline)) {
			x.BoundHit = true
			break
		}
		p := x.queue[len(x.queue)-1]
		x.queue = x.queue[:len(x.queue)-1]
		x.S.popAll()
		x.prefix, x.pos, x.pc, x.vars, x.regions, x.obs = p, 0, nil, nil, nil, nil
		x.nI, x.nB, x.nN, x.nQ = 0, 0, 0, 0
		x.divCache = nil
		e.mapOrderOn = false
		x.mulOrigin = nil
		x.pathAsserted = 0
		e.Steps = 0
		e.StepLimit = b.MaxSteps
		e.journalOn()
		func() {
			defer func() {
				if r := recover(); r != nil {
					switch r := r.(type) {
					case pathAbort:
						x.Aborted[r.why]++
					case string:
						// the interpreter itself gave up (unsupported construct): never a verdict
						x.Aborted["engine unsupported: "+firstLine(r)]++
					case error:
						if strings.Contains(r.Error(), "interp.") {
							x.Aborted["engine unsupported: "+firstLine(r.Error())]++
							return
						}
						e.report(fmt.Sprintf("PANIC: %v", r), nil)
					default:
						msg := fmt.Sprintf("PANIC: %v", r)
						if tp, ok := r.(targetPanic); ok {
							msg = "PANIC: " + toString(tp.v)
						}
						e.report(msg, nil)
					}
					return
				}
				x.Completed++
				sym := false
				for _, c := range x.pc {
					vs := map[string]bool{}
					c.vars(vs)
					if len(vs) > 0 {
						sym = true
						break
					}
				}
				if sym {
					x.SymPaths++
				}
				if len(x.Samples) < x.MaxSamples && (sym || x.Completed <= 2) {
					if r, vec := e.modelVector(nil); r == "sat" {
						x.Samples = append(x.Samples, Sample{Params: x.CurParams, Tag: x.Tag, PC: pcString(x.pc, 600), Vector: vec, Obs: strings.Join(x.obs, "; ")})
					}
				}
			}()
			run()
		}()
		e.journalRollback()
		x.Paths++
	}
	x.QueueLeft += len(x.queue)
	x.S.popAll()
}

func pcString(pc []*Term, max int) string {
	var parts []string
	for _, c := range pc {
		parts = append(parts, c.String())
	}
	s := strings.Join(parts, " ∧ ")
	if len(s) > max {
		s = s[:max] + "…"
	}
	return s
}

// modelVector asks for a model of pc ∧ extra and returns the nondet vector.
func (e *Engine) modelVector(extra []*Term) (string, []VecEntry) {
	x := e.X
	var want []*Term
	for _, v := range x.vars {
		if v.kind != "" {
			want = append(want, v.t)
		}
	}
	r, vals := x.S.check(extra, want)
	if r != "sat" {
		return r, nil
	}
	var vec []VecEntry
	i := 0
	for _, v := range x.vars {
		if v.kind == "" {
			continue
		}
		u, bi := parseModelValue(vals[i])
		i++
		var s string
		switch v.kind {
		case "int64":
			if bi != nil {
				s = bi.String()
			} else {
				s = fmt.Sprint(int64(u))
			}
		default:
			s = fmt.Sprint(u)
		}
		vec = append(vec, VecEntry{v.kind, s})
	}
	return r, vec
}

// report records an assertion failure / panic on the current path. neg is the negated
// assertion (nil when the failure is unconditional on this path).
func (e *Engine) report(msg string, neg *Term) {
	x := e.X
	var extra []*Term
	if neg != nil {
		extra = append(extra, neg)
	}
	add := func(kind, region string, outside bool, vec []VecEntry) {
		key := kind + "|" + region + "|" + msg + "|" + x.Tag
		if f, ok := x.Findings[key]; ok {
			f.Count++
			return
		}
		pc := append(append([]*Term{}, x.pc...), extra...)
		x.Findings[key] = &Finding{Params: x.CurParams, Kind: kind, Region: region, Msg: msg, Tag: x.Tag, Vector: vec, PC: pcString(pc, 800), Count: 1, Outside: outside}
	}
	// 1. outside every known region?
	var known []regionTerm
	for _, r := range x.regions {
		if x.KnownNames[r.name] {
			known = append(known, r)
		}
	}
	out := append([]*Term{}, extra...)
	for _, r := range known {
		out = append(out, tnot(r.t))
	}
	r, vec := e.modelVector(out)
	switch r {
	case "sat":
		add("violation", "", len(known) > 0, vec)
	case "unknown":
		x.Aborted["classification unknown"]++
	}
	// 2. which known regions does it touch?
	for _, kr := range known {
		if r, vec := e.modelVector(append(append([]*Term{}, extra...), kr.t)); r == "sat" {
			add("known", kr.name, false, vec)
		}
	}
}

func (x *Explorer) SortedFindings() []*Finding {
	var keys []string
	for k := range x.Findings {
		keys = append(keys, k)
	}
	sort.Strings(keys)
	var out []*Finding
	for _, k := range keys {
		out = append(out, x.Findings[k])
	}
	return out
}

func firstLine(s string) string {
	if i := strings.IndexByte(s, '\n'); i >= 0 {
		s = s[:i]
	}
	if len(s) > 120 {
		s = s[:120]
	}
	return s
}
