package interp

// gosym: encoding/json.Unmarshal into *interface{} (the only form the repo uses): the text
// is decoded natively and the resulting tree (nil, bool, float64, string, []interface{},
// map[string]interface{}) is rebuilt as engine values.  Invalid JSON and other targets stay
// unsupported (the path is abandoned and counted).

import (
	"encoding/json"
	"go/types"
)

var (
	tEmptyIface = types.NewInterfaceType(nil, nil).Complete()
	tIfaceSlice = types.NewSlice(tEmptyIface)
	tStrIfMap   = types.NewMap(types.Typ[types.String], tEmptyIface)
)

func jsonToValue(x interface{}) value {
	switch x := x.(type) {
	case nil:
		return iface{}
	case bool:
		return iface{t: types.Typ[types.Bool], v: x}
	case float64:
		return iface{t: types.Typ[types.Float64], v: x}
	case string:
		return iface{t: types.Typ[types.String], v: x}
	case []interface{}:
		out := make([]value, len(x))
		for i, e := range x {
			out[i] = jsonToValue(e)
		}
		return iface{t: tIfaceSlice, v: out}
	case map[string]interface{}:
		m := makeMap(types.Typ[types.String], int64(len(x))).(*omap)
		// insertion order = sorted keys (Go map order is a solver choice elsewhere; here it is fixed)
		keys := make([]string, 0, len(x))
		for k := range x {
			keys = append(keys, k)
		}
		sortStrings(keys)
		for _, k := range keys {
			m.insert(k, jsonToValue(x[k]))
		}
		return iface{t: tStrIfMap, v: m}
	}
	panic("unsupported: encoding/json value kind")
}

func sortStrings(a []string) {
	for i := 1; i < len(a); i++ {
		for j := i; j > 0 && a[j] < a[j-1]; j-- {
			a[j], a[j-1] = a[j-1], a[j]
		}
	}
}

func extJSONUnmarshal(fr *frame, a []value) value {
	bs, ok := a[0].([]value)
	target, ok2 := a[1].(iface)
	if !ok || !ok2 {
		panic("unsupported: encoding/json (reflection)")
	}
	pt, isPtr := target.t.(*types.Pointer)
	if !isPtr {
		panic("unsupported: encoding/json (reflection)")
	}
	if it, isIface := pt.Elem().Underlying().(*types.Interface); !isIface || it.NumMethods() != 0 {
		panic("unsupported: encoding/json (reflection)")
	}
	raw := make([]byte, len(bs))
	for i, b := range bs {
		c, isByte := b.(uint8)
		if !isByte {
			panic("unsupported: encoding/json on symbolic text")
		}
		raw[i] = c
	}
	var x interface{}
	if err := json.Unmarshal(raw, &x); err != nil {
		panic("unsupported: encoding/json error value (invalid JSON text)")
	}
	store(tEmptyIface, target.v.(*value), jsonToValue(x))
	return iface{}
}
