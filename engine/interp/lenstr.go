package interp

// gosym: LenStr — a string whose content is abstracted away and whose length is symbolic.

import (
	"go/token"
	"go/types"
)

type lenstr struct{ n *Term }

func isLenStr(x value) bool { _, ok := x.(*lenstr); return ok }

func lenTerm(x value) *Term {
	switch x := x.(type) {
	case *lenstr:
		return x.n
	case string:
		return bvConst(64, uint64(len(x)))
	}
	panic(pathAbort{"lenstr: operand is not a string"})
}

func lenstrBinop(op token.Token, x, y value) value {
	if op == token.ADD {
		return &lenstr{mkBV("bvadd", 64, lenTerm(x), lenTerm(y))}
	}
	panic(pathAbort{"lenstr: unsupported op " + op.String()})
}

func (s *lenstr) slice(lo, hi value) value {
	l := bvConst(64, 0)
	if lo != nil {
		l = lift(types.Int, lo)
	}
	h := s.n
	if hi != nil {
		h = lift(types.Int, hi)
	}
	ok := tand(mkBool("bvsle", bvConst(64, 0), l), mkBool("bvsle", l, h), mkBool("bvsle", h, s.n))
	if !theEngine.decide(ok) {
		panic(runtimeErrString("slice bounds out of range (lenstr)"))
	}
	return &lenstr{mkBV("bvsub", 64, h, l)}
}

func init() {
	externals[rtPkg+"LenStr"] = func(fr *frame, a []value) value {
		return &lenstr{lift(types.Int64, a[0])}
	}
}

// lenbytes: a []byte slice whose length is symbolic (content abstracted away).
type lenbytes struct{ n *Term }
