// Copyright 2013 The Go Authors. All rights reserved.
// Use of this source code is governed by a BSD-style
// license that can be found in the LICENSE file.

package interp

// gosym: one insertion-ordered map replaces the fork's native map[value]value and
// hashmap.  Iteration is deterministic (needed for re-execution with a decision
// prefix); an enabled "map order" mode lets the solver choose the order of a range
// loop.  Keys may contain symbolic scalars: such maps are searched linearly with
// solver-decided equality.

import (
	"go/types"
)

type hashable interface {
	hash(t types.Type) int
	eq(t types.Type, x interface{}) bool
}

type oentry struct {
	key, val value
	dead     bool
}

type omap struct {
	keyType types.Type
	builtin bool // key usable directly as Go map key
	ents    []*oentry
	idx     map[interface{}][]*oentry
	n       int
	symKeys bool
}

// makeMap returns an empty initialized map of key type kt.
func makeMap(kt types.Type, reserve int64) value {
	return &omap{keyType: kt, builtin: usesBuiltinMap(kt), idx: make(map[interface{}][]*oentry)}
}

func hasSym(v value) bool {
	switch v := v.(type) {
	case *symv:
		return true
	case structure:
		for _, f := range v {
			if hasSym(f) {
				return true
			}
		}
	case array:
		for _, f := range v {
			if hasSym(f) {
				return true
			}
		}
	case iface:
		return hasSym(v.v)
	}
	return false
}

func (m *omap) bucket(k value) interface{} {
	if m.builtin {
		return k
	}
	return hash(m.keyType, m.keyType, k)
}

func (m *omap) find(k value) *oentry {
	if m == nil {
		return nil
	}
	if m.symKeys || hasSym(k) {
		for _, e := range m.ents {
			if !e.dead && equals(m.keyType, k, e.key) {
				return e
			}
		}
		return nil
	}
	for _, e := range m.idx[m.bucket(k)] {
		if !e.dead && (m.builtin || equals(m.keyType, k, e.key)) {
			return e
		}
	}
	return nil
}

func (m *omap) lookup(k value) (value, bool) {
	if e := m.find(k); e != nil {
		return e.val, true
	}
	return nil, false
}

func (m *omap) insert(k, v value) {
	if e := m.find(k); e != nil {
		old := e.val
		journalUndo(func() { e.val = old })
		e.val = v
		return
	}
	e := &oentry{key: k, val: v}
	m.ents = append(m.ents, e)
	m.n++
	if hasSym(k) {
		if !m.symKeys {
			journalUndo(func() { m.symKeys = false })
		}
		m.symKeys = true
	} else {
		b := m.bucket(k)
		m.idx[b] = append(m.idx[b], e)
	}
	journalUndo(func() {
		e.dead = true
		m.n--
		// physical removal keeps the order list short across thousands of paths
		if len(m.ents) > 0 && m.ents[len(m.ents)-1] == e {
			m.ents = m.ents[:len(m.ents)-1]
		}
		if !hasSym(k) {
			b := m.bucket(k)
			l := m.idx[b]
			for i := range l {
				if l[i] == e {
					m.idx[b] = append(l[:i:i], l[i+1:]...)
					break
				}
			}
			if len(m.idx[b]) == 0 {
				delete(m.idx, b)
			}
		}
	})
}

func (m *omap) delete(k value) {
	if e := m.find(k); e != nil {
		e.dead = true
		m.n--
		journalUndo(func() { e.dead = false; m.n++ })
	}
}

func (m *omap) len() int {
	if m == nil {
		return 0
	}
	return m.n
}

// live returns the live entries in insertion order.
func (m *omap) live() []*oentry {
	if m == nil {
		return nil
	}
	out := make([]*oentry, 0, m.n)
	for _, e := range m.ents {
		if !e.dead {
			out = append(out, e)
		}
	}
	return out
}

type omapIter struct {
	ents []*oentry
	i    int
}

func (it *omapIter) next() tuple {
	for it.i < len(it.ents) {
		e := it.ents[it.i]
		it.i++
		if e.dead {
			continue
		}
		return tuple{true, e.key, e.val}
	}
	return tuple{false, nil, nil}
}

// chanq is a channel modelled as an unbounded queue (goroutines run eagerly).
type chanq struct {
	buf    []value
	closed bool
}

// newMapIter: iteration order of a Go map. Insertion order by default; with
// Engine.MapOrder > 0 (and inside a harness that enabled it) the solver picks the order.
func newMapIter(fr *frame, m *omap) iter {
	ents := m.live()
	if theEngine != nil && theEngine.MapOrder > 0 && theEngine.mapOrderOn && len(ents) >= 2 && len(ents) <= theEngine.mapOrderMax {
		name := fr.fn.String()
		if !OrderInsensitive[name] {
			theEngine.PermutedRanges[name]++
			ents = theEngine.permute(ents)
		}
	}
	return &omapIter{ents: ents}
}

// OrderInsensitive lists functions whose range-over-map loops were audited as
// independent of iteration order (they copy into another map, or sort afterwards).
// Part of the claim: listed in evidence.
var OrderInsensitive = map[string]bool{
	"github.com/Syuparn/pangaea/object.NewCopiedEnv":       true, // copies Store into a new map
	"(*github.com/Syuparn/pangaea/object.Env).InjectFrom":  true, // Set per distinct key
	"(*github.com/Syuparn/pangaea/object.Env).Items":       true, // map -> map, keys sorted by PanObjInstancePtr
	"(*github.com/Syuparn/pangaea/object.PanObj).AddPairs": true, // insert-if-absent of distinct keys
	"github.com/Syuparn/pangaea/object.keyHashes":          true, // sorts afterwards
	"(*github.com/Syuparn/pangaea/object.PanObj).Inspect":  true, // sortedPairsString
	"(*github.com/Syuparn/pangaea/object.PanObj).Repr":     true,
	// (PanMap.Inspect / Repr were on this list until round 4: they sort by the PRINTED key, and two
	// keys can print alike - 1.0000001 and 1.0000002 - so the order of ties did depend on the range)
	"github.com/Syuparn/pangaea/di.toPairs":                true, // start-up, map -> map
	"github.com/Syuparn/pangaea/di.mergePropContainers":    true, // start-up, map -> map
}
