package interp

// gosym: math intrinsics. Concrete arguments run natively; symbolic float arguments map
// to SMT FP operators where one exists, and math.Pow to its contract stub.

import (
	"go/types"
	"math"
)

func fpTerm(v value) *Term {
	if s, ok := v.(*symv); ok {
		return s.t
	}
	return fpConst(v.(float64))
}

func fpSym(t *Term) value { return &symv{types.Float64, t} }

func init() {
	un := func(name string, native func(float64) float64, sym func(*Term) value) {
		externals["math."+name] = func(fr *frame, a []value) value {
			if x, ok := a[0].(float64); ok {
				return native(x)
			}
			if sym == nil {
				panic(pathAbort{"unsupported: math." + name + " on a symbolic float"})
			}
			return sym(fpTerm(a[0]))
		}
	}
	rtn := &Term{op: "RTN"}
	rtp := &Term{op: "RTP"}
	rtz := &Term{op: "RTZ"}
	rne := &Term{op: "RNE"}
	un("Floor", math.Floor, func(t *Term) value { return fpSym(mkFP("fp.roundToIntegral", rtn, t)) })
	un("Ceil", math.Ceil, func(t *Term) value { return fpSym(mkFP("fp.roundToIntegral", rtp, t)) })
	un("Trunc", math.Trunc, func(t *Term) value { return fpSym(mkFP("fp.roundToIntegral", rtz, t)) })
	un("Abs", math.Abs, func(t *Term) value { return fpSym(mkFP("fp.abs", t)) })
	un("Sqrt", math.Sqrt, func(t *Term) value { return fpSym(mkFP("fp.sqrt", rne, t)) })
	un("Round", math.Round, nil)
	un("Log", math.Log, nil)
	un("Log2", math.Log2, nil)
	un("Log10", math.Log10, nil)
	un("Exp", math.Exp, nil)
	un("Sin", math.Sin, nil)
	un("Cos", math.Cos, nil)
	externals["math.IsNaN"] = func(fr *frame, a []value) value {
		if x, ok := a[0].(float64); ok {
			return math.IsNaN(x)
		}
		return &symv{types.Bool, mkBool("fp.isNaN", fpTerm(a[0]))}
	}
	externals["math.IsInf"] = func(fr *frame, a []value) value {
		if x, ok := a[0].(float64); ok && !isSym(a[1]) {
			return math.IsInf(x, a[1].(int))
		}
		t := fpTerm(a[0])
		sign := a[1].(int)
		inf := mkBool("fp.isInfinite", t)
		switch {
		case sign > 0:
			return &symv{types.Bool, tand(inf, mkBool("fp.isPositive", t))}
		case sign < 0:
			return &symv{types.Bool, tand(inf, mkBool("fp.isNegative", t))}
		}
		return &symv{types.Bool, inf}
	}
	externals["math.Float64bits"] = func(fr *frame, a []value) value {
		if x, ok := a[0].(float64); ok {
			return math.Float64bits(x)
		}
		t := fpTerm(a[0])
		if t.op == "(_ to_fp 11 53)" && len(t.args) == 1 && t.args[0].s == sBV {
			return &symv{types.Uint64, t.args[0]} // float made from its bits: the bits themselves
		}
		panic(pathAbort{"unsupported: math.Float64bits of a computed symbolic float"})
	}
	externals["math.Float64frombits"] = func(fr *frame, a []value) value {
		if x, ok := a[0].(uint64); ok {
			return math.Float64frombits(x)
		}
		return fpSym(mkFP("(_ to_fp 11 53)", a[0].(*symv).t))
	}
	externals["math.Mod"] = func(fr *frame, a []value) value {
		if isSym(a[0]) || isSym(a[1]) {
			panic(pathAbort{"unsupported: math.Mod on a symbolic float"})
		}
		return math.Mod(a[0].(float64), a[1].(float64))
	}
	// math.Pow — CONTRACT STUB for a symbolic base and a concrete integral exponent 0..63:
	// the result is the float64 nearest to the exact real power (exact when representable).
	// A counterexample built on it is always replayed natively before it is reported.
	externals["math.Pow"] = func(fr *frame, a []value) value {
		x, xok := a[0].(float64)
		y, yok := a[1].(float64)
		if xok && yok {
			return math.Pow(x, y)
		}
		if !yok || y != math.Trunc(y) || y < 0 || y > 63 {
			panic(pathAbort{"unsupported: math.Pow with a symbolic or non-integral exponent"})
		}
		xt := fpTerm(a[0])
		xr := &Term{op: "fp.to_real", s: sInt, args: []*Term{xt}}
		var p *Term = &Term{op: "const-real", s: sInt, name: "1.0"}
		for i := 0; i < int(y); i++ {
			if i == 0 {
				p = xr
			} else {
				p = &Term{op: "*", s: sInt, args: []*Term{p, xr}}
			}
		}
		if int(y) == 0 {
			return 1.0
		}
		return fpSym(mkFP("(_ to_fp 11 53)", rne, p))
	}
}
