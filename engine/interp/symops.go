package interp

// gosym: Go operators on symbolic scalars (BV mode, Int mode, FP).

import (
	"fmt"
	"go/token"
	"go/types"
	"math/big"
)

type runtimeErrString string

func (e runtimeErrString) Error() string { return "runtime error: " + string(e) }
func (e runtimeErrString) RuntimeError() {}

func symBinop(op token.Token, t types.Type, x, y value) value {
	k := basicKind(t)
	switch k {
	case types.Bool:
		a, b := lift(k, x), lift(k, y)
		switch op {
		case token.EQL:
			return &symv{types.Bool, teq(a, b)}
		case token.NEQ:
			return &symv{types.Bool, tnot(teq(a, b))}
		}
		panic(pathAbort{"bool binop " + op.String()})
	case types.Float64:
		return fpBinop(op, lift(k, x), lift(k, y))
	case types.String:
		panic(pathAbort{"symbolic string operand"})
	}
	if !isIntKind(k) {
		panic(pathAbort{"symbolic binop on kind " + fmt.Sprint(k)})
	}
	if theEngine.IntMode {
		return intBinop(op, k, x, y)
	}
	w, signed := kindInfo(k)
	a := lift(k, x)
	var b *Term
	if op == token.SHL || op == token.SHR {
		// shift count may have another (unsigned) type; bring to width w
		if s, ok := y.(*symv); ok {
			b = s.t
			if b.w != w {
				if b.w < w {
					b = mkBV(fmt.Sprintf("(_ zero_extend %d)", w-b.w), w, b)
				} else {
					panic(pathAbort{"symbolic shift count wider than operand"})
				}
			}
		} else {
			c := asUint64Any(y)
			if c >= uint64(w) {
				c = uint64(w) // SMT shifts by >= w give 0 / sign fill, as Go does
			}
			b = bvConst(w, c)
		}
	} else {
		b = lift(k, y)
	}
	bv := func(o string) value { return &symv{k, mkBV(o, w, a, b)} }
	bl := func(o string, p, q *Term) value { return &symv{types.Bool, mkBool(o, p, q)} }
	switch op {
	case token.ADD:
		return bv("bvadd")
	case token.SUB:
		return bv("bvsub")
	case token.MUL:
		return bv("bvmul")
	case token.QUO, token.REM:
		if theEngine.decide(teq(b, bvConst(w, 0))) {
			panic(runtimeErrString("integer divide by zero"))
		}
		o := map[bool]map[token.Token]string{true: {token.QUO: "bvsdiv", token.REM: "bvsrem"}, false: {token.QUO: "bvudiv", token.REM: "bvurem"}}[signed][op]
		return bv(o)
	case token.AND:
		return bv("bvand")
	case token.OR:
		return bv("bvor")
	case token.XOR:
		return bv("bvxor")
	case token.AND_NOT:
		return &symv{k, mkBV("bvand", w, a, mkBV("bvnot", w, b))}
	case token.SHL:
		return bv("bvshl")
	case token.SHR:
		if signed {
			return bv("bvashr")
		}
		return bv("bvlshr")
	case token.EQL:
		return &symv{types.Bool, teq(a, b)}
	case token.NEQ:
		return &symv{types.Bool, tnot(teq(a, b))}
	case token.LSS:
		if signed {
			return bl("bvslt", a, b)
		}
		return bl("bvult", a, b)
	case token.LEQ:
		if signed {
			return bl("bvsle", a, b)
		}
		return bl("bvule", a, b)
	case token.GTR:
		if signed {
			return bl("bvslt", b, a)
		}
		return bl("bvult", b, a)
	case token.GEQ:
		if signed {
			return bl("bvsle", b, a)
		}
		return bl("bvule", b, a)
	}
	panic(pathAbort{"unsupported symbolic binop " + op.String()})
}

// intBinop: Int-theory encoding with explicit wrap-around.
func intBinop(op token.Token, k types.BasicKind, x, y value) value {
	a := lift(k, x)
	b := lift(k, y)
	iv := func(t *Term) value { return &symv{k, theEngine.named(wrapInt(k, t))} }
	bl := func(o string, p, q *Term) value { return &symv{types.Bool, mkBool(o, p, q)} }
	w, signed := kindInfo(k)
	// operands are in range (invariant of Int mode), so a sum or difference is off by at
	// most one modulus: an ite is far easier for the solver than mod
	wrap1 := func(t *Term) value {
		if t.op == "const" {
			return iv(t)
		}
		m := intConstBig(pow2[w])
		if signed {
			hi := intConstBig(pow2[w-1])
			lo := intConstBig(new(big.Int).Neg(pow2[w-1]))
			return &symv{k, theEngine.named(tite(mkBool(">=", t, hi), mkInt("-", t, m), tite(mkBool("<", t, lo), mkInt("+", t, m), t)))}
		}
		return &symv{k, theEngine.named(tite(mkBool(">=", t, m), mkInt("-", t, m), tite(mkBool("<", t, intConst(0)), mkInt("+", t, m), t)))}
	}
	switch op {
	case token.ADD:
		return wrap1(mkInt("+", a, b))
	case token.SUB:
		return wrap1(mkInt("-", a, b))
	case token.MUL:
		prod := mkInt("*", a, b)
		res := iv(prod).(*symv)
		if res.t.op == "var" && signed {
			x := theEngine.X
			if x.mulOrigin == nil {
				x.mulOrigin = map[*Term][2]*Term{}
			}
			x.mulOrigin[res.t] = [2]*Term{a, b}
			// lemma (true in arithmetic): an in-range product is not changed by wrap-around
			x.addPC(tor(tnot(inRangeInt(prod, w)), teq(res.t, prod)))
		}
		return res
	case token.QUO, token.REM:
		if theEngine.decide(teq(b, intConst(0))) {
			panic(runtimeErrString("integer divide by zero"))
		}
		q, r := theEngine.truncDiv(a, b)
		if o, ok := theEngine.X.mulOrigin[a]; ok && signed && (o[0] == b || o[1] == b) {
			// Lemmas for the overflow idiom `c := x*y; c/y != x` (true in arithmetic for y != 0):
			//   x*y in range  =>  c/y == x and c%y == 0
			//   x*y out of range  =>  c/y != x   (else |c - x*y| = |r| < |y| <= 2^63 < 2^64)
			other := o[0]
			if o[0] == b {
				other = o[1]
			}
			in := inRangeInt(mkInt("*", o[0], o[1]), w)
			theEngine.X.addPC(tand(tor(tnot(in), tand(teq(q, other), teq(r, intConst(0)))), tor(in, tnot(teq(q, other)))))
		}
		if op == token.QUO {
			if signed {
				// only MinInt / -1 leaves the range
				hi := intConstBig(pow2[w-1])
				return &symv{k, theEngine.named(tite(teq(q, hi), intConstBig(new(big.Int).Neg(pow2[w-1])), q))}
			}
			return &symv{k, q}
		}
		return &symv{k, r}
	case token.EQL:
		return &symv{types.Bool, teq(a, b)}
	case token.NEQ:
		return &symv{types.Bool, tnot(teq(a, b))}
	case token.LSS:
		return bl("<", a, b)
	case token.LEQ:
		return bl("<=", a, b)
	case token.GTR:
		return bl(">", a, b)
	case token.GEQ:
		return bl(">=", a, b)
	}
	panic(pathAbort{"Int mode: unsupported binop " + op.String()})
}

// truncDiv introduces fresh q, r with a = q*b + r, |r| < |b|, sign(r) in {0, sign(a)}
// (Go's truncated division), as path constraints.
func (e *Engine) truncDiv(a, b *Term) (q, r *Term) {
	key := [2]*Term{a, b}
	if c, ok := e.X.divCache[key]; ok {
		return c[0], c[1]
	}
	defer func() {
		if e.X.divCache == nil {
			e.X.divCache = map[[2]*Term][2]*Term{}
		}
		e.X.divCache[key] = [2]*Term{q, r}
	}()
	q = e.freshAux()
	r = e.freshAux()
	zero := intConst(0)
	absb := tite(mkBool("<", b, zero), mkInt("-", b), b)
	c := tand(
		teq(a, mkInt("+", mkInt("*", q, b), r)),
		mkBool("<", tite(mkBool("<", r, zero), mkInt("-", r), r), absb),
		tor(teq(r, zero), teq(mkBool("<", r, zero), mkBool("<", a, zero))),
	)
	e.X.addPC(c)
	return
}

func fpBinop(op token.Token, a, b *Term) value {
	fv := func(o string) value {
		return &symv{types.Float64, mkFP(o, &Term{op: "RNE"}, a, b)}
	}
	bl := func(o string, p, q *Term) value { return &symv{types.Bool, mkBool(o, p, q)} }
	switch op {
	case token.ADD:
		return fv("fp.add")
	case token.SUB:
		return fv("fp.sub")
	case token.MUL:
		return fv("fp.mul")
	case token.QUO:
		return fv("fp.div")
	case token.EQL:
		return bl("fp.eq", a, b)
	case token.NEQ:
		return &symv{types.Bool, tnot(mkBool("fp.eq", a, b))}
	case token.LSS:
		return bl("fp.lt", a, b)
	case token.LEQ:
		return bl("fp.leq", a, b)
	case token.GTR:
		return bl("fp.gt", a, b)
	case token.GEQ:
		return bl("fp.geq", a, b)
	}
	panic(pathAbort{"unsupported symbolic float binop " + op.String()})
}

func symUnop(op token.Token, x *symv) value {
	switch op {
	case token.NOT:
		return &symv{types.Bool, tnot(x.t)}
	case token.SUB:
		switch x.t.s {
		case sFP:
			return &symv{x.kind, mkFP("fp.neg", x.t)}
		case sInt:
			if w, signed := kindInfo(x.kind); signed {
				lo := intConstBig(new(big.Int).Neg(pow2[w-1]))
				return &symv{x.kind, tite(teq(x.t, lo), lo, mkInt("-", x.t))}
			}
			return &symv{x.kind, wrapInt(x.kind, mkInt("-", x.t))}
		}
		return &symv{x.kind, mkBV("bvneg", x.t.w, x.t)}
	case token.XOR:
		if x.t.s == sBV {
			return &symv{x.kind, mkBV("bvnot", x.t.w, x.t)}
		}
	}
	panic(pathAbort{"unsupported symbolic unop " + op.String()})
}

func symConv(tdst types.Type, x *symv) value {
	b, ok := tdst.Underlying().(*types.Basic)
	if !ok {
		panic(pathAbort{"symbolic conversion to " + tdst.String()})
	}
	k := b.Kind()
	if k == types.Float64 {
		switch x.t.s {
		case sFP:
			return &symv{k, x.t}
		case sBV:
			_, signed := kindInfo(x.kind)
			o := "(_ to_fp 11 53)"
			if !signed {
				o = "(_ to_fp_unsigned 11 53)"
			}
			return &symv{k, mkFP(o, &Term{op: "RNE"}, x.t)}
		case sInt:
			return &symv{k, mkFP("(_ to_fp 11 53)", &Term{op: "RNE"}, &Term{op: "to_real", args: []*Term{x.t}})}
		}
	}
	if b.Info()&types.IsInteger == 0 {
		panic(pathAbort{"symbolic conversion to " + tdst.String()})
	}
	w, signed := kindInfo(k)
	if x.t.s == sFP {
		// Go: float→int truncates toward zero; out-of-range is implementation-defined.
		if theEngine.IntMode {
			panic(pathAbort{"Int mode: float→int conversion"})
		}
		// NaN/out of range: flag path (amd64 gives 0x8000000000000000 for int64)
		o := fmt.Sprintf("(_ fp.to_sbv %d)", w)
		if !signed {
			o = fmt.Sprintf("(_ fp.to_ubv %d)", w)
		}
		inRange := fpInIntRange(x.t, w, signed)
		if !theEngine.decide(inRange) {
			if w == 64 && signed {
				return int64(-1 << 63) // amd64 behaviour (cvttsd2sq "integer indefinite")
			}
			panic(pathAbort{"float→int conversion out of range (implementation-defined)"})
		}
		return &symv{k, mkBV(o, w, &Term{op: "RTZ"}, x.t)}
	}
	if x.t.s == sInt {
		return &symv{k, wrapInt(k, x.t)}
	}
	_, ssigned := kindInfo(x.kind)
	sw := x.t.w
	switch {
	case w == sw:
		return &symv{k, x.t}
	case w < sw:
		return &symv{k, mkBV(fmt.Sprintf("(_ extract %d 0)", w-1), w, x.t)}
	case ssigned:
		return &symv{k, mkBV(fmt.Sprintf("(_ sign_extend %d)", w-sw), w, x.t)}
	default:
		return &symv{k, mkBV(fmt.Sprintf("(_ zero_extend %d)", w-sw), w, x.t)}
	}
}

func fpInIntRange(f *Term, w int, signed bool) *Term {
	if signed {
		hiF, _ := new(big.Float).SetInt(pow2[w-1]).Float64()
		return tand(mkBool("fp.geq", f, fpConst(-hiF)), mkBool("fp.lt", f, fpConst(hiF)))
	}
	hiF, _ := new(big.Float).SetInt(pow2[w]).Float64()
	return tand(mkBool("fp.gt", f, fpConst(-1)), mkBool("fp.lt", f, fpConst(hiF)))
}

// named gives a compound Int term a name (fresh auxiliary constant equal to it) so
// that later formulas stay small; constants and variables are returned unchanged.
func (e *Engine) named(t *Term) *Term {
	if t.op == "const" || t.op == "var" {
		return t
	}
	v := e.freshAux()
	e.X.addPC(teq(v, t))
	return v
}

func inRangeInt(t *Term, w int) *Term {
	return tand(mkBool("<=", intConstBig(new(big.Int).Neg(pow2[w-1])), t), mkBool("<", t, intConstBig(pow2[w-1])))
}
