package interp

// gosym: SMT terms.  Sorts: Bool, BitVec(w), Int (mathematical), FP64.

import (
	"fmt"
	"go/types"
	"math"
	"math/big"
	"strings"
)

type sortKind byte

const (
	sBool sortKind = iota
	sBV
	sInt
	sFP
)

type Term struct {
	op   string
	args []*Term
	s    sortKind
	w    int      // width for sBV
	val  uint64   // const BV
	ival *big.Int // const Int
	name string   // var
}

func (t *Term) isConst() bool { return t.op == "const" || t.op == "true" || t.op == "false" }

func bvConst(w int, v uint64) *Term {
	if w < 64 {
		v &= (1 << uint(w)) - 1
	}
	return &Term{op: "const", s: sBV, w: w, val: v}
}
func intConst(v int64) *Term       { return &Term{op: "const", s: sInt, ival: big.NewInt(v)} }
func intConstBig(v *big.Int) *Term { return &Term{op: "const", s: sInt, ival: new(big.Int).Set(v)} }
func fpConst(f float64) *Term {
	return &Term{op: "fpconst", s: sFP, val: math.Float64bits(f)}
}

var tTrue = &Term{op: "true", s: sBool}
var tFalse = &Term{op: "false", s: sBool}

func boolConst(b bool) *Term {
	if b {
		return tTrue
	}
	return tFalse
}
func mkBool(op string, args ...*Term) *Term { return &Term{op: op, s: sBool, args: args} }
func mkBV(op string, w int, args ...*Term) *Term {
	return &Term{op: op, s: sBV, w: w, args: args}
}
func mkInt(op string, args ...*Term) *Term { return &Term{op: op, s: sInt, args: args} }
func mkFP(op string, args ...*Term) *Term  { return &Term{op: op, s: sFP, args: args} }

func tnot(a *Term) *Term {
	switch a.op {
	case "true":
		return tFalse
	case "false":
		return tTrue
	case "not":
		return a.args[0]
	}
	return mkBool("not", a)
}
func tand(a ...*Term) *Term {
	var out []*Term
	for _, x := range a {
		switch x.op {
		case "true":
			continue
		case "false":
			return tFalse
		}
		out = append(out, x)
	}
	switch len(out) {
	case 0:
		return tTrue
	case 1:
		return out[0]
	}
	return mkBool("and", out...)
}
func tor(a ...*Term) *Term {
	var out []*Term
	for _, x := range a {
		switch x.op {
		case "false":
			continue
		case "true":
			return tTrue
		}
		out = append(out, x)
	}
	switch len(out) {
	case 0:
		return tFalse
	case 1:
		return out[0]
	}
	return mkBool("or", out...)
}
func teq(a, b *Term) *Term {
	if a == b && a.s != sFP {
		return tTrue
	}
	if a.op == "const" && b.op == "const" {
		if a.s == sBV {
			return boolConst(a.val == b.val)
		}
		if a.s == sInt {
			return boolConst(a.ival.Cmp(b.ival) == 0)
		}
	}
	if a.s == sBool {
		if a.isConst() && b.isConst() {
			return boolConst(a.op == b.op)
		}
		if b.op == "true" {
			return a
		}
		if b.op == "false" {
			return tnot(a)
		}
		if a.op == "true" {
			return b
		}
		if a.op == "false" {
			return tnot(b)
		}
	}
	if a.s == sFP {
		return mkBool("fp.eq", a, b)
	}
	return mkBool("=", a, b)
}
func tite(c, a, b *Term) *Term {
	switch c.op {
	case "true":
		return a
	case "false":
		return b
	}
	return &Term{op: "ite", s: a.s, w: a.w, args: []*Term{c, a, b}}
}

func (t *Term) smt(sb *strings.Builder) {
	switch t.op {
	case "const":
		if t.s == sInt {
			if t.ival.Sign() < 0 {
				fmt.Fprintf(sb, "(- %s)", new(big.Int).Neg(t.ival).String())
			} else {
				sb.WriteString(t.ival.String())
			}
			return
		}
		if t.w%4 == 0 {
			fmt.Fprintf(sb, "#x%0*x", t.w/4, t.val)
		} else {
			fmt.Fprintf(sb, "#b%0*b", t.w, t.val)
		}
	case "fpconst":
		fmt.Fprintf(sb, "((_ to_fp 11 53) #x%016x)", t.val)
	case "true", "false":
		sb.WriteString(t.op)
	case "var":
		sb.WriteString(t.name)
	default:
		if len(t.args) == 0 {
			sb.WriteString(t.op)
			return
		}
		sb.WriteByte('(')
		sb.WriteString(t.op)
		for _, a := range t.args {
			sb.WriteByte(' ')
			a.smt(sb)
		}
		sb.WriteByte(')')
	}
}
func (t *Term) String() string { var sb strings.Builder; t.smt(&sb); return sb.String() }

// vars collects variable names in t.
func (t *Term) vars(into map[string]bool) {
	if t.op == "var" {
		into[t.name] = true
	}
	for _, a := range t.args {
		a.vars(into)
	}
}

// ---------------------------------------------------------------- symbolic value

type symv struct {
	kind types.BasicKind // Bool, Int, Int64, Uint64, Float64, ...
	t    *Term
}

func kindInfo(k types.BasicKind) (w int, signed bool) {
	switch k {
	case types.Int, types.Int64:
		return 64, true
	case types.Int32:
		return 32, true
	case types.Int16:
		return 16, true
	case types.Int8:
		return 8, true
	case types.Uint, types.Uint64, types.Uintptr:
		return 64, false
	case types.Uint32:
		return 32, false
	case types.Uint16:
		return 16, false
	case types.Uint8:
		return 8, false
	}
	panic(pathAbort{"unsupported symbolic kind " + fmt.Sprint(k)})
}

func isIntKind(k types.BasicKind) bool {
	switch k {
	case types.Int, types.Int64, types.Int32, types.Int16, types.Int8, types.Uint, types.Uint64, types.Uintptr, types.Uint32, types.Uint16, types.Uint8:
		return true
	}
	return false
}

func basicKind(t types.Type) types.BasicKind {
	b, ok := t.Underlying().(*types.Basic)
	if !ok {
		panic(pathAbort{"symbolic operand of non-basic type " + t.String()})
	}
	k := b.Kind()
	switch k {
	case types.UntypedInt:
		k = types.Int
	case types.UntypedBool:
		k = types.Bool
	case types.UntypedFloat:
		k = types.Float64
	}
	return k
}

var pow2 = func() [130]*big.Int {
	var p [130]*big.Int
	for i := range p {
		p[i] = new(big.Int).Lsh(big.NewInt(1), uint(i))
	}
	return p
}()

// wrapInt reduces the Int term x to the value range of kind k (Go wrap-around).
func wrapInt(k types.BasicKind, x *Term) *Term {
	w, signed := kindInfo(k)
	if x.op == "const" {
		v := new(big.Int).Mod(x.ival, pow2[w])
		if signed && v.Cmp(pow2[w-1]) >= 0 {
			v.Sub(v, pow2[w])
		}
		return intConstBig(v)
	}
	if signed {
		return mkInt("-", mkInt("mod", mkInt("+", x, intConstBig(pow2[w-1])), intConstBig(pow2[w])), intConstBig(pow2[w-1]))
	}
	return mkInt("mod", x, intConstBig(pow2[w]))
}

// lift turns a concrete scalar into a term of kind k in the engine's current mode.
func lift(k types.BasicKind, x value) *Term {
	if s, ok := x.(*symv); ok {
		return s.t
	}
	switch k {
	case types.Bool:
		return boolConst(x.(bool))
	case types.Float64:
		return fpConst(x.(float64))
	case types.Float32:
		panic(pathAbort{"symbolic float32"})
	}
	if theEngine.IntMode {
		_, signed := kindInfo(k)
		if signed {
			return intConst(asInt64(x))
		}
		return intConstBig(new(big.Int).SetUint64(asUint64Any(x)))
	}
	w, _ := kindInfo(k)
	return bvConst(w, asUint64Any(x))
}

func concreteOf(k types.BasicKind, v uint64) value {
	switch k {
	case types.Int:
		return int(int64(v))
	case types.Int64:
		return int64(v)
	case types.Int32:
		return int32(v)
	case types.Int16:
		return int16(v)
	case types.Int8:
		return int8(v)
	case types.Uint:
		return uint(v)
	case types.Uint64:
		return v
	case types.Uint32:
		return uint32(v)
	case types.Uint16:
		return uint16(v)
	case types.Uint8:
		return uint8(v)
	case types.Uintptr:
		return uintptr(v)
	case types.Bool:
		return v != 0
	case types.Float64:
		return math.Float64frombits(v)
	}
	panic("concreteOf")
}

func isSym(x value) bool { _, ok := x.(*symv); return ok }

func asUint64Any(y value) uint64 {
	switch y := y.(type) {
	case int, int8, int16, int32, int64:
		return uint64(asInt64(y))
	}
	return asUint64(y)
}
