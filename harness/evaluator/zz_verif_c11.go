package evaluator

// C11 — indexing and slicing select exactly the addressed elements.
// Real code under test: findElemInArr/findElemInStr → arrIndex/strIndex,
// arrRange/strRange → valRange → fixRange.

import (
	"github.com/Syuparn/pangaea/object"
	rt "github.com/Syuparn/pangaea/zzverifrt"
)

// vBound: a range bound that is nil or an arbitrary int64.
func vBound() (object.PanObject, bool, int64) {
	if rt.Bool() {
		return object.BuiltInNil, true, 0
	}
	v := rt.Int64()
	return object.NewPanInt(v), false, v
}

// refSlice is the reference of DESIGN.md Appendix B (Python slice semantics).  All
// intermediate values stay within [-1, n], so int64 arithmetic cannot wrap.
func refSlice(n int64, sNil bool, s int64, eNil bool, e int64, stNil bool, st int64) ([]int64, bool) {
	if stNil {
		st = 1
	}
	if st == 0 {
		return nil, true
	}
	var lo, hi, ds, de int64
	if st > 0 {
		lo, hi, ds, de = 0, n, 0, n
	} else {
		lo, hi, ds, de = -1, n-1, n-1, -1
	}
	clamp := func(x int64) int64 {
		if x < 0 {
			if x < -n {
				return lo
			}
			if x+n < lo {
				return lo
			}
			return x + n
		}
		if x > hi {
			return hi
		}
		return x
	}
	s0, e0 := ds, de
	if !sNil {
		s0 = clamp(s)
	}
	if !eNil {
		e0 = clamp(e)
	}
	pos := []int64{}
	p := s0
	for k := int64(0); k <= n; k++ {
		if st > 0 {
			if !(p < e0) {
				break
			}
		} else {
			if !(p > e0) {
				break
			}
		}
		pos = append(pos, p)
		// next position without overflow: stop when the step reaches past the end
		if st > 0 {
			if st >= e0-p {
				break
			}
		} else {
			if st <= e0-p {
				break
			}
		}
		p += st
	}
	return pos, false
}

func c11Regions(n int64, sNil bool, s int64, eNil bool, e int64, tNil bool, t int64) {
	rt.Known("C11/neg-step-start-past-end", !tNil && t < 0 && !sNil && s > n-1)
	rt.Known("C11/neg-step-stop-before-begin", !tNil && t < 0 && !eNil && e < -n)
	rt.Known("C11/step-wraps-int64", !tNil && (t > (1<<62) || t < -(1<<62)))
}

// VH_C11_arr: arr[start:stop:step] on an array of concrete length n.
func VH_C11_arr(n int) {
	elems := make([]object.PanObject, n)
	for i := range elems {
		elems[i] = object.NewPanInt(int64(100 + i))
	}
	arr := object.NewPanArr(elems...)
	so, sNil, s := vBound()
	eo, eNil, e := vBound()
	to, tNil, t := vBound()
	c11Regions(int64(n), sNil, s, eNil, e, tNil, t)
	r := object.NewPanRange(so, eo, to)
	var res object.PanObject
	pm := rt.Panics(func() { res = findElemInArr(nil, nil, arr, object.NewPanArr(r)) })
	rt.Assert(pm == "", "slicing must not abort the interpreter")
	want, isErr := refSlice(int64(n), sNil, s, eNil, e, tNil, t)
	if isErr {
		pe, ok := res.(*object.PanErr)
		rt.Assert(ok && pe.ErrKind == object.ValueErr, "step 0 must raise ValueErr")
		return
	}
	a, ok := res.(*object.PanArr)
	rt.Assert(ok, "result must be arr")
	rt.Assert(len(a.Elems) == len(want), "length differs from reference")
	for j := range want {
		rt.Assert(a.Elems[j] == elems[want[j]], "element differs from reference")
	}
}

var c11Strs = [][]string{
	{"", "a", "ab", "abc", "abcd", "abcde"},
	{"", "é", "éa", "日本語", "aé日b", "日é本a語"},
}

// VH_C11_str: str[start:stop:step]; pool 0 = ASCII, 1 = multi-byte; n = length in code points.
func VH_C11_str(pool, n int) {
	src := c11Strs[pool][n]
	runes := []rune(src)
	so, sNil, s := vBound()
	eo, eNil, e := vBound()
	to, tNil, t := vBound()
	c11Regions(int64(n), sNil, s, eNil, e, tNil, t)
	rt.Known("C11/str-step-zero-panics", !tNil && t == 0)
	r := object.NewPanRange(so, eo, to)
	var res object.PanObject
	pm := rt.Panics(func() { res = findElemInStr(nil, nil, object.NewPanStr(src), object.NewPanArr(r)) })
	rt.Assert(pm == "", "slicing must not abort the interpreter")
	want, isErr := refSlice(int64(n), sNil, s, eNil, e, tNil, t)
	if isErr {
		pe, ok := res.(*object.PanErr)
		rt.Assert(ok && pe.ErrKind == object.ValueErr, "step 0 must raise ValueErr")
		return
	}
	str, ok := res.(*object.PanStr)
	rt.Assert(ok, "result must be str")
	exp := ""
	for _, p := range want {
		exp += string(runes[p])
	}
	rt.Assert(str.Value == exp, "characters differ from reference")
}

// VH_C11_idx: s[i] for arrays (kind 0) and strings (kind 1, 2 = multi-byte), any int64 i.
func VH_C11_idx(kind, n int) {
	i := rt.Int64()
	idx := object.NewPanArr(object.NewPanInt(i))
	N := int64(n)
	inRange := i >= -N && i <= N-1
	var pos int64
	if i < 0 {
		pos = i + N
	} else {
		pos = i
	}
	var res object.PanObject
	if kind == 0 {
		elems := make([]object.PanObject, n)
		for k := range elems {
			elems[k] = object.NewPanInt(int64(100 + k))
		}
		pm := rt.Panics(func() { res = findElemInArr(nil, nil, object.NewPanArr(elems...), idx) })
		rt.Assert(pm == "", "indexing must not abort the interpreter")
		if !inRange {
			rt.Assert(res == object.BuiltInNil, "out-of-range index must give nil")
			return
		}
		rt.Assert(res == elems[pos], "wrong element")
		return
	}
	src := c11Strs[kind-1][n]
	runes := []rune(src)
	pm := rt.Panics(func() { res = findElemInStr(nil, nil, object.NewPanStr(src), idx) })
	rt.Assert(pm == "", "indexing must not abort the interpreter")
	if !inRange {
		rt.Assert(res == object.BuiltInNil, "out-of-range index must give nil")
		return
	}
	str, ok := res.(*object.PanStr)
	rt.Assert(ok && str.Value == string(runes[pos]), "wrong character")
}
