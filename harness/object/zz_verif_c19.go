package object

// C19: the process-wide symbol table hands key objects to every later program (Env.Items,
// evalEnv, import).  VH_C19_symtabPlain reports whether every object in it is a plain str:
// prototype Str and the text it is registered under - never an object that belongs to a program.
func VH_C19_symtabPlain() bool {
	lock.RLock()
	defer lock.RUnlock()
	for str, h := range symHashTable {
		s, ok := strTable[h]
		if !ok || s == nil || s.Value != str || s.Proto() != PanObject(BuiltInStrObj) {
			return false
		}
	}
	return true
}
