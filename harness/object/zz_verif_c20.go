package object

// C20: entry points for the engine traces on a str object that is shared between evaluations.

// VH_C20_sharedStr returns the str object the symbol table hands out for hash h.
func VH_C20_sharedStr(h SymHash) *PanStr {
	o, _ := SymHash2Str(h)
	return o.(*PanStr)
}

func VH_C20_strSymHash(s *PanStr) SymHash { return s.SymHash() }
func VH_C20_strHash(s *PanStr) HashKey    { return s.Hash() }
func VH_C20_strInspect(s *PanStr) string  { return s.Inspect() }
