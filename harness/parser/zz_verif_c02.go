package parser

// C02 — expressions group by the documented precedence and associativity.
// Real code under test: yyParse (LALR tables generated from the %left/%right/%prec
// declarations) + the grammar actions, driven token by token. In the engine
// (*Lexer).Lex is replaced by a token feed so that operator tokens can be solver
// choices; natively the same token list is rendered to source text and goes through the
// real regex lexer, so every native replay also cross-checks the token model.

import (
	"strings"

	"github.com/Syuparn/pangaea/ast"
	rt "github.com/Syuparn/pangaea/zzverifrt"
	"github.com/macrat/simplexer"
)

type vTok struct {
	id  int
	lit string
}

var vFeed []vTok
var vPos int

// vLex replaces (*Lexer).Lex inside the engine.
func vLex(l *Lexer, lval *yySymType) int {
	if vPos >= len(vFeed) {
		return -1
	}
	t := vFeed[vPos]
	vPos++
	lval.token = &simplexer.Token{Literal: t.lit}
	l.Source = &ast.Source{Line: "h", TokenLiteral: t.lit}
	return t.id
}

var vSpell = map[string]int{
	"(": LPAREN, ")": RPAREN, "[": LBRACKET, "]": RBRACKET, ".": MAIN_CHAIN, "@": MAIN_CHAIN, "$": MAIN_CHAIN,
	":=": ASSIGN, "=>": RIGHT_ASSIGN, "+=": COMPOUND_ASSIGN, "if": IF, "else": ELSE, "return": RETURN, "raise": RAISE, "yield": YIELD, "defer": DEFER,
	",": COMMA, "!": BANG, "~": ADD_CHAIN, "/~": BIT_NOT,
	"**": DOUBLE_STAR, "*": STAR, "/": SLASH, "//": DOUBLE_SLASH, "%": PERCENT, "+": PLUS, "-": MINUS,
	"<<": BIT_LSHIFT, ">>": BIT_RSHIFT, "/&": BIT_AND, "/|": BIT_OR, "/^": BIT_XOR,
	"<=>": SPACESHIP, "==": EQ, "!=": NEQ, "===": TOPIC_EQ, "!==": TOPIC_NEQ, "<": LT, "<=": LE, ">": GT, ">=": GE,
	"&&": AND, "||": OR,
}

func vTokens(words []string) []vTok {
	var out []vTok
	for _, w := range words {
		if id, ok := vSpell[w]; ok {
			out = append(out, vTok{id, w})
		} else if w[0] >= '0' && w[0] <= '9' {
			out = append(out, vTok{INT, w})
		} else {
			out = append(out, vTok{IDENT, w})
		}
	}
	return out
}

// vParse parses a program given as words (one token each).
func vParse(words []string) (string, bool) {
	var n ast.Node
	var err error
	if rt.Symbolic() {
		vFeed, vPos = vTokens(words), 0
		l := &Lexer{fileName: "h"}
		n, err = tryParse(nil, l)
	} else {
		// no space around ( [ . so that calls, indexing and chains are lexed as written
		var sb strings.Builder
		for i, w := range words {
			tight := w == "(" || w == ")" || w == "[" || w == "]" || w == "." || w == "," || w == "@" || w == "$"
			prevTight := i > 0 && (words[i-1] == "(" || words[i-1] == "[" || words[i-1] == "." || words[i-1] == "@" || words[i-1] == "$")
			prevPrefix := i > 0 && vIsPrefixAt(words, i-1)
			if i > 0 && !tight && !prevTight && !prevPrefix {
				sb.WriteByte(' ')
			}
			if w == "(" && i > 0 && !vIsOperand(words[i-1]) {
				// grouping paren after an operator: keep a space before it
				if !prevTight && !prevPrefix {
					sb.WriteByte(' ')
				}
			}
			sb.WriteString(w)
		}
		n, err = Parse(NewReader(strings.NewReader(sb.String()), "h"))
	}
	if err != nil || n == nil {
		return "", false
	}
	return n.String(), true
}

func vIsOperand(w string) bool {
	if _, ok := vSpell[w]; ok {
		return w == ")" || w == "]"
	}
	return true
}

// vIsPrefixAt: is words[i] a prefix operator (an operator token in operand position)?
func vIsPrefixAt(words []string, i int) bool {
	w := words[i]
	if w != "-" && w != "!" && w != "+" && w != "/~" {
		return false
	}
	return i == 0 || !vIsOperand(words[i-1])
}

var vInfix = []string{"**", "*", "/", "//", "%", "+", "-", "<<", ">>", "/&", "/|", "/^", "<=>", "==", "!=", "===", "!==", "<", "<=", ">", ">=", "&&", "||"}

var vLevels = []string{"**", "*", "+", "<<", "/&", "/|", "==", "&&", "||"}

// documented precedence level (docs/reference/operators.md), higher binds tighter
func vPrec(op string) int {
	switch op {
	case "**":
		return 9
	case "*", "/", "//", "%":
		return 8
	case "+", "-":
		return 7
	case "<<", ">>":
		return 6
	case "/&":
		return 5
	case "/|", "/^":
		return 4
	case "<=>", "==", "!=", "===", "!==", "<", "<=", ">", ">=":
		return 3
	case "&&":
		return 2
	case "||":
		return 1
	}
	return 0
}

// vGroup returns the words of `atoms[0] ops[0] atoms[1] ...` with the parentheses the
// documented table implies (binary operators of equal level group left to right).
func vGroup(atoms [][]string, ops []string) []string {
	// precedence climbing over indices
	var build func(lo, hi int) []string // atoms[lo..hi]
	build = func(lo, hi int) []string {
		if lo == hi {
			return atoms[lo]
		}
		// the operator applied last: lowest precedence, rightmost among equals (left assoc)
		best := lo
		for k := lo; k < hi; k++ {
			if vPrec(ops[k]) <= vPrec(ops[best]) {
				best = k
			}
		}
		var out []string
		out = append(out, "(")
		out = append(out, build(lo, best)...)
		out = append(out, ops[best])
		out = append(out, build(best+1, hi)...)
		out = append(out, ")")
		return out
	}
	return build(0, len(atoms)-1)
}

var vAtoms = [][]string{
	{"a"}, {"7"}, {"f", "(", "a", ")"}, {"a", "[", "b", "]"}, {"(", "a", ")"}, {"-", "a"}, {"a", ".", "p"}, {"!", "a"}, {"a", "@", "p", "(", "b", ")"}, {"+", "a"}, {"/~", "a"},
}

func vFlat(atoms [][]string, ops []string) []string {
	var out []string
	for i, a := range atoms {
		if i > 0 {
			out = append(out, ops[i-1])
		}
		out = append(out, a...)
	}
	return out
}

func vSame(written, grouped []string, msg string) {
	s1, ok1 := vParse(written)
	rt.Assert(ok1, "the expression must parse")
	s2, ok2 := vParse(grouped)
	rt.Assert(ok2, "the expression with the implied parentheses must parse")
	rt.Note(strings.Join(written, " ") + "  ==  " + strings.Join(grouped, " ") + "   AST: " + s1 + "  |  " + s2)
	rt.Assert(s1 == s2, msg)
}

// VH_C02_infix: n operators (n = 2 or 3), each a solver choice of the 23 infix operators;
// first is fixed by the job when first >= 0; operand shapes are solver choices too.
func VH_C02_infix(n, first, shapes int) {
	ops := make([]string, n)
	for i := range ops {
		if i == 0 && first >= 0 {
			ops[i] = vInfix[first]
		} else {
			ops[i] = vInfix[rt.Choice(len(vInfix))]
		}
	}
	atoms := make([][]string, n+1)
	for i := range atoms {
		if shapes == 1 || (shapes == 2 && i == 1) {
			atoms[i] = vAtoms[rt.Choice(len(vAtoms))]
		} else {
			atoms[i] = []string{string(rune('a' + i))}
		}
	}
	vSame(vFlat(atoms, ops), vGroup(atoms, ops), "infix operators must group by the documented precedence, equal levels left to right")
}

type vTemplate struct {
	written, grouped string // "OP1", "OP2", "OP3" are replaced by solver-chosen infix operators
	msg              string
}

var vTemplates = []vTemplate{
	{"PFX a . p", "( PFX a ) . p", "a prefix operator binds tighter than a chain"},
	{"PFX a OP1 b", "( PFX a ) OP1 b", "a prefix operator binds tighter than any infix operator"},
	{"PFX a @ p ( b ) OP1 c", "( ( PFX a ) @ p ( b ) ) OP1 c", "a prefix operator binds tighter than a chain, a chain tighter than any infix operator"},
	{"a . p OP1 b", "( a . p ) OP1 b", "a chain binds tighter than any infix operator"},
	{"a OP1 b . p", "a OP1 ( b . p )", "a chain binds tighter than any infix operator"},
	{"a OP1 b @ p ( c )", "a OP1 ( b @ p ( c ) )", "a chain binds tighter than any infix operator"},
	{"PFX a [ b ]", "PFX ( a [ b ] )", "indexing binds tighter than a prefix operator"},
	{"PFX f ( a )", "PFX ( f ( a ) )", "calling binds tighter than a prefix operator"},
	{"a OP1 f ( b ) OP2 c [ d ]", "GROUP3 a | f ( b ) | c [ d ]", "calls and indexing are operands of infix operators"},
	{"x := a OP1 b", "x := ( a OP1 b )", "assignment binds looser than any infix operator"},
	{"x += a OP1 b", "x += ( a OP1 b )", "compound assignment binds looser than any infix operator"},
	{"x := y := a OP1 b", "x := ( y := ( a OP1 b ) )", "assignment groups right to left"},
	{"a OP1 b => x", "( a OP1 b ) => x", "right assignment binds looser than any infix operator"},
	{"x := a => y", "( x := a ) => y", "right assignment binds looser than left assignment"},
	{"return a OP1 b", "return ( a OP1 b )", "a jump statement takes the whole expression"},
	{"raise a OP1 b", "raise ( a OP1 b )", "a jump statement takes the whole expression"},
	{"return x := a", "return ( x := a )", "a jump statement binds looser than assignment"},
	{"a OP1 b if c OP2 d else e OP3 f", "( a OP1 b ) if ( c OP2 d ) else ( e OP3 f )", "if/else binds looser than any infix operator"},
	{"a OP1 b if c OP2 d", "( a OP1 b ) if ( c OP2 d )", "if binds looser than any infix operator"},
	{"x := a if c else b", "( x := a ) if c else b", "if/else binds looser than assignment"},
	{"return a if c OP1 d", "return a if ( c OP1 d )", "a guarded jump takes the whole condition"},
	{"PFX a ** b", "( PFX a ) ** b", "a prefix operator binds tighter than **"},
	{"a OP1 ( b OP2 c )", "a OP1 ( b OP2 c )", "grouping is kept as written"},
	{"f ( a OP1 b , c OP2 d )", "f ( ( a OP1 b ) , ( c OP2 d ) )", "arguments are whole expressions"},
	{"a [ b OP1 c ]", "a [ ( b OP1 c ) ]", "an index is a whole expression"},
	{"a OP1 PFX b OP2 c", "GROUP3 a | ( PFX b ) | c", "a prefix operator applies to its operand only, wherever it stands"},
	{"PFX PFX a OP1 b", "( PFX ( PFX a ) ) OP1 b", "stacked prefix operators bind tighter than any infix operator"},
	{"x := PFX a OP1 b", "x := ( ( PFX a ) OP1 b )", "a prefix operator binds tighter than any infix operator (right-hand side of an assignment)"},
}

var vPrefix = []string{"-", "+", "!", "/~"}

// VH_C02_mixed: template t with solver-chosen infix operators in its OP slots.
func VH_C02_mixed(t int) {
	tp := vTemplates[t]
	ops := []string{vInfix[rt.Choice(len(vInfix))], "", ""}
	if strings.Contains(tp.written, "OP2") {
		ops[1] = vInfix[rt.Choice(len(vInfix))]
	}
	if strings.Contains(tp.written, "OP3") {
		// third slot: one representative operator per precedence level
		ops[2] = vLevels[rt.Choice(len(vLevels))]
	}
	pfx := ""
	if strings.Contains(tp.written, "PFX") {
		pfx = vPrefix[rt.Choice(len(vPrefix))]
	}
	sub := func(s string) []string {
		var out []string
		for _, w := range strings.Fields(s) {
			switch w {
			case "PFX":
				w = pfx
			case "OP1":
				w = ops[0]
			case "OP2":
				w = ops[1]
			case "OP3":
				w = ops[2]
			}
			out = append(out, w)
		}
		return out
	}
	written := sub(tp.written)
	var grouped []string
	if strings.HasPrefix(tp.grouped, "GROUP3 ") {
		var atoms [][]string
		for _, a := range strings.Split(strings.TrimPrefix(tp.grouped, "GROUP3 "), "|") {
			atoms = append(atoms, sub(a))
		}
		grouped = vGroup(atoms, ops[:2])
	} else {
		grouped = sub(tp.grouped)
	}
	vSame(written, grouped, tp.msg)
}
