package parser

// C16 (content level): the token sequence produced by the real lexer (real token table,
// real regular expressions, real simplexer buffering) must not depend on how the reader
// splits the bytes.  The source texts are concrete; the chunk size is a solver choice.

import (
	"io"
	"strings"

	rt "github.com/Syuparn/pangaea/zzverifrt"
)

type vChunkReader struct {
	data  string
	pos   int
	chunk int
}

func (r *vChunkReader) Read(p []byte) (int, error) {
	if r.pos >= len(r.data) {
		return 0, io.EOF
	}
	n := r.chunk
	if n > len(p) {
		n = len(p)
	}
	if n > len(r.data)-r.pos {
		n = len(r.data) - r.pos
	}
	copy(p, r.data[r.pos:r.pos+n])
	r.pos += n
	return n, nil
}

func vLexAll(r io.Reader) (out []string, failed bool) {
	defer func() {
		if e := recover(); e != nil {
			if _, isStr := e.(string); !isStr {
				panic(e)
			}
			out, failed = append(out, "LEXER-ERROR"), true
		}
	}()
	l := NewLexer(NewReader(r, "h"))
	for i := 0; i < 400; i++ {
		var lval yySymType
		id := l.Lex(&lval)
		if id < 0 || lval.token == nil {
			break
		}
		out = append(out, lval.token.Literal)
	}
	return out, false
}

var vChunkSources = []string{
	"s := \"日本語のテキスト\"; t := `raw あ string`\n# コメント line\ns.p\n",
	"x := [1,\n\n  # a comment\n\n  2]\n\"a#{x}é#{1}ü\".p\n",
	"名 := 1\n",
	"a := ?あ; b := 'sym; c := \"\\n\\t\"; [a, b, c]@{|v| v.S}\n",
}

var vChunkSizes = []int{1, 2, 3, 5, 7, 16, 2048}

// VH_C16_chunks: source text src, read through a reader that returns chunks of a
// solver-chosen size, must give the token sequence of a single full read.
func VH_C16_chunks(src int) {
	text := vChunkSources[src]
	want, _ := vLexAll(strings.NewReader(text))
	rt.Assert(len(want) > 0, "the source must lex with a full read")
	size := vChunkSizes[rt.Choice(len(vChunkSizes))]
	got, _ := vLexAll(&vChunkReader{data: text, chunk: size})
	rt.Assert(len(got) == len(want), "the token sequence must not depend on how the reader splits the bytes")
	for i := range want {
		if i < len(got) {
			rt.Assert(got[i] == want[i], "every token keeps its full text however the reader splits the bytes")
		}
	}
}
