package parser

// C16 (content level): the token sequence produced by the real lexer (real token table,
// real regular expressions, real simplexer buffering) must not depend on how the reader
// splits the bytes.  The source texts are concrete; the chunk size is a solver choice.

import (
	"io"
	"strings"

	rt "github.com/Syuparn/pangaea/zzverifrt"
)

type vChunkReader struct {
	data  string
	pos   int
	chunk int
	// eofWithData: the read that delivers the last bytes also reports io.EOF (the io.Reader
	// contract allows both (n, nil) then (0, EOF) and (n, EOF))
	eofWithData bool
}

func (r *vChunkReader) Read(p []byte) (int, error) {
	if r.pos >= len(r.data) {
		return 0, io.EOF
	}
	n := r.chunk
	if n > len(p) {
		n = len(p)
	}
	if n > len(r.data)-r.pos {
		n = len(r.data) - r.pos
	}
	copy(p, r.data[r.pos:r.pos+n])
	r.pos += n
	if r.eofWithData && r.pos >= len(r.data) {
		return n, io.EOF
	}
	return n, nil
}

func vLexAll(r io.Reader) (out []string, failed bool) {
	defer func() {
		if e := recover(); e != nil {
			if _, isStr := e.(string); !isStr {
				panic(e)
			}
			out, failed = append(out, "LEXER-ERROR"), true
		}
	}()
	l := NewLexer(NewReader(r, "h"))
	for i := 0; i < 400; i++ {
		var lval yySymType
		id := l.Lex(&lval)
		if id < 0 || lval.token == nil {
			break
		}
		out = append(out, lval.token.Literal)
	}
	return out, false
}

var vChunkSources = []string{
	"s := \"日本語のテキスト\"; t := `raw あ string`\n# コメント line\ns.p\n",
	"x := [1,\n\n  # a comment\n\n  2]\n\"a#{x}é#{1}ü\".p\n",
	"名 := 1\n",
	"a := ?あ; b := 'sym; c := \"\\n\\t\"; [a, b, c]@{|v| v.S}\n",
}

var vChunkSizes = []int{1, 2, 3, 5, 7, 16, 2048}

// VH_C16_chunks: source text src, read through a reader that returns chunks of a
// solver-chosen size, must give the token sequence of a single full read.
func VH_C16_chunks(src int) {
	text := vChunkSources[src]
	want, _ := vLexAll(strings.NewReader(text))
	rt.Assert(len(want) > 0, "the source must lex with a full read")
	size := vChunkSizes[rt.Choice(len(vChunkSizes))]
	got, _ := vLexAll(&vChunkReader{data: text, chunk: size, eofWithData: rt.Bool()})
	rt.Assert(len(got) == len(want), "the token sequence must not depend on how the reader splits the bytes")
	for i := range want {
		if i < len(got) {
			rt.Assert(got[i] == want[i], "every token keeps its full text however the reader splits the bytes")
		}
	}
}

// ---------------------------------------------------------------- layout equivalence
//
// "Wherever the grammar allows a line break, replacing it by any number of blank lines,
// comment lines and surrounding spaces or tabs yields the same program": every template
// marks the places where it is written with a line break (␤); each place gets a
// solver-chosen layout run; the AST must print like the one with plain line breaks.
// Real lexer (token table, regular expressions) and real parser.

var vLayoutTemplates = []string{
	"[1,␤2,␤3]", "{a: 1,␤b: 2}", "%{1: 2,␤3: 4}", "f(1,␤2)", "a := 1␤b := 2␤[a, b]",
	"[1, 2, 3]␤|@{|x| x * 2}␤|.sum", "{|x|␤x + 1␤}", "[␤1␤]", "<{|n|␤yield n if n < 2␤recur(n + 1)␤}>",
	"o␤|.a␤|&.b␤|~@c", "m{|x|␤x␤}", "{␤a: 1␤}", "f(␤1␤)", "x := [1,␤2]␤x␤|.sum", "%{␤1: 2␤}", "a␤", "␤a",
	"o␤|=.a␤|$(0)+␤|=@b", "[1]␤|~.a␤|&@b␤|~$(1)*",
}

var vLayouts = []string{"\n", "\n\n", "\n  \n", "\n# c\n", "\n  # c\n", "\n\t\n", " \n", "\n \t# c \n\n", "\n    ", "\n#\n", "\t\n\t# é\n\t", "\n\n\n  \n\n"}

func vParseText(src string) (string, bool) {
	n, err := Parse(NewReader(strings.NewReader(src), "h"))
	if err != nil || n == nil {
		return "", false
	}
	return n.String(), true
}

func VH_C16_layout(t int) {
	tp := vLayoutTemplates[t]
	parts := strings.Split(tp, "␤")
	base, ok := vParseText(strings.Join(parts, "\n"))
	rt.Assert(ok, "the template must parse with plain line breaks")
	text := ""
	for i, p := range parts {
		if i > 0 {
			text += vLayouts[rt.Choice(len(vLayouts))]
		}
		text += p
	}
	rt.Note(text)
	got, ok := vParseText(text)
	rt.Assert(ok, "a line break replaced by blank lines, comment lines and blanks must still parse")
	rt.Assert(got == base, "a line break replaced by blank lines, comment lines and blanks yields the same program")
}
