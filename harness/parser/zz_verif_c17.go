package parser

// C17 — literals and names denote what their spelling says.

import (
	"fmt"
	"strings"

	"github.com/Syuparn/pangaea/ast"
	rt "github.com/Syuparn/pangaea/zzverifrt"
	"github.com/macrat/simplexer"
)

// VH_C17_table returns the real token table, in first-match order, as "id\tpattern".
func VH_C17_table() []string {
	var out []string
	for _, t := range tokenTypes() {
		if r, ok := t.(*simplexer.RegexpTokenType); ok {
			out = append(out, fmt.Sprintf("%d\t%s", int(r.ID), r.Re.String()))
		} else {
			out = append(out, fmt.Sprintf("%d\t<non-regexp>", int(t.GetID())))
		}
	}
	return out
}

var _ = strings.Join
var _ = ast.Position{}
var _ = rt.Note

// ---------------------------------------------------------------- literals

// vParseLit parses a one-token program (token id + spelling) and returns the literal node.
func vParseLit(id int, lit string) (ast.Node, bool) {
	var n ast.Node
	var err error
	if rt.Symbolic() {
		vFeed, vPos = []vTok{{id, lit}}, 0
		l := &Lexer{fileName: "h"}
		n, err = tryParse(nil, l)
	} else {
		n, err = Parse(NewReader(strings.NewReader(lit), "h"))
	}
	if err != nil || n == nil {
		return nil, false
	}
	prog, ok := n.(*ast.Program)
	if !ok || len(prog.Stmts) != 1 {
		return nil, false
	}
	es, ok := prog.Stmts[0].(*ast.ExprStmt)
	if !ok {
		return nil, false
	}
	return es.Expr, true
}

// vDigits: positional value of digits (underscores skipped) in base; ok=false on int64 overflow.
func vDigits(s string, base uint64) (int64, bool) {
	var v uint64
	for i := 0; i < len(s); i++ {
		c := s[i]
		if c == '_' {
			continue
		}
		var d uint64
		switch {
		case c >= '0' && c <= '9':
			d = uint64(c - '0')
		case c >= 'a' && c <= 'f':
			d = uint64(c-'a') + 10
		default:
			d = uint64(c-'A') + 10
		}
		if v > (1<<63-1-d)/base {
			return 0, false
		}
		v = v*base + d
	}
	return int64(v), true
}

var vIntBodies = [][]string{
	// decimal
	{"0", "7", "42", "1_000", "1_0_0", "123456789", "9223372036854775807", "9223372036854775806", "9223372036854775808", "9_223_372_036_854_775_807", "18446744073709551615", "18446744073709551616", "99999999999999999999", "00012", "1000000000000000000", "4611686018427387904"},
	// hex (after 0x)
	{"0", "ff", "FF", "dead_beef", "7fffffffffffffff", "8000000000000000", "7FFF_FFFF_FFFF_FFFF", "ffffffffffffffff", "10000000000000000", "00ff", "123456789abcdef"},
	// octal (after 0o)
	{"0", "17", "7_7", "777777777777777777777", "1000000000000000000000", "0017", "12345670"},
	// binary (after 0b)
	{"0", "1", "101", "1_0_1", "111111111111111111111111111111111111111111111111111111111111111", "1000000000000000000000000000000000000000000000000000000000000000", "0001"},
}

// VH_C17_int: form 0 decimal, 1 hex, 2 octal, 3 binary; the spelling (body, prefix case)
// is a solver choice from the pool.
func VH_C17_int(form int) {
	body := vIntBodies[form][rt.Choice(len(vIntBodies[form]))]
	lit, id, base := body, INT, uint64(10)
	switch form {
	case 1:
		lit, id, base = []string{"0x", "0X"}[rt.Choice(2)]+body, HEX_INT, 16
	case 2:
		lit, id, base = []string{"0o", "0O"}[rt.Choice(2)]+body, OCT_INT, 8
	case 3:
		lit, id, base = []string{"0b", "0B"}[rt.Choice(2)]+body, BIN_INT, 2
	}
	rt.Note(lit)
	want, fits := vDigits(body, base)
	n, ok := vParseLit(id, lit)
	if !fits {
		rt.Assert(!ok, "an integer literal that does not fit in 64 bits must be rejected, not replaced by another value")
		return
	}
	rt.Assert(ok, "an integer literal must parse")
	il, isInt := n.(*ast.IntLiteral)
	rt.Assert(isInt && il.Value == want, "an integer literal has exactly its mathematical value")
}

var vAlphabets = []string{"0123456789", "0123456789abcdefABCDEF", "01234567", "01"}

// VH_C17_digits: every literal of one to three digits over the FULL digit alphabet of the
// base (both letter cases for hex): first and second digit any digit, third digit absent /
// 0 / the largest digit / an underscore-separated 1; prefix case a solver choice. shard / of
// split the first digit between jobs.
func VH_C17_digits(form, shard, of int) {
	al := vAlphabets[form]
	lo, hi := len(al)*shard/of, len(al)*(shard+1)/of
	if hi <= lo {
		return
	}
	body := string(al[lo+rt.Choice(hi-lo)])
	if rt.Bool() {
		body += string(al[rt.Choice(len(al))])
		switch rt.Choice(4) {
		case 1:
			body += "0"
		case 2:
			body += string(al[len(al)-1])
		case 3:
			body += "_1"
		}
	}
	lit, id, base := body, INT, uint64(10)
	switch form {
	case 1:
		lit, id, base = []string{"0x", "0X"}[rt.Choice(2)]+body, HEX_INT, 16
	case 2:
		lit, id, base = []string{"0o", "0O"}[rt.Choice(2)]+body, OCT_INT, 8
	case 3:
		lit, id, base = []string{"0b", "0B"}[rt.Choice(2)]+body, BIN_INT, 2
	}
	rt.Note(lit)
	want, _ := vDigits(body, base)
	n, ok := vParseLit(id, lit)
	rt.Assert(ok, "an integer literal must parse")
	il, isInt := n.(*ast.IntLiteral)
	rt.Assert(isInt && il.Value == want, "an integer literal has exactly its mathematical value")
}

var vMantissas = []string{"1", "12", "9", "100", "1_5", "123456789", "9223372036854775807", "92233720368547758", "10", "010", "0_10", "09", "0012", "0100", "0", "00", "0x1"[:1] + "8"}
var vExps = []string{"0", "1", "2", "3", "17", "18", "19", "-1", "-2", "00", "30", "1001", "-1001"}

// VH_C17_expint: mantissa and exponent are solver choices.
func VH_C17_expint() {
	m := vMantissas[rt.Choice(len(vMantissas))]
	e := vExps[rt.Choice(len(vExps))]
	lit := m + []string{"e", "E"}[rt.Choice(2)] + e
	rt.Note(lit)
	mv, _ := vDigits(m, 10)
	neg := e[0] == '-'
	ev, _ := vDigits(strings.TrimPrefix(e, "-"), 10)
	want, fits, exact := mv, true, true
	for i := int64(0); i < ev; i++ {
		if neg {
			if want%10 != 0 {
				exact = false
			}
			want /= 10
		} else {
			if want > (1<<63-1)/10 {
				fits = false
				break
			}
			want *= 10
		}
	}
	n, ok := vParseLit(EXP_INT, lit)
	if !fits {
		rt.Assert(!ok, "an exponent-form integer that does not fit in 64 bits must be rejected")
		return
	}
	if !exact {
		return // the literal does not denote an integer: the statement is silent (the implementation truncates or rejects)
	}
	rt.Assert(ok, "an exponent-form integer must parse")
	il, isInt := n.(*ast.IntLiteral)
	rt.Assert(isInt && il.Value == want, "an exponent-form literal denoting an integer has exactly its mathematical value")
}

var vStrBodies = []struct {
	src, want string
	ok        bool
}{
	{`abc`, "abc", true}, {``, "", true}, {`a\nb`, "a\nb", true}, {`a\tb`, "a\tb", true}, {`a\\b`, `a\b`, true}, {`a\"b`, `a"b`, true},
	{`\x41`, "A", true}, {`é`, "é", true}, {`日本`, "日本", true}, {`a\db`, "", false}, {`\q`, "", false}, {`a\ b`, "", false}, {`\x4`, "", false}, {`it's`, "it's", true},
	{`\r\n`, "\r\n", true}, {`\0`, "", false}, {`\101`, "A", true},
	// an escaped backslash followed by a letter that is an escape letter somewhere (\e, \a, \x41 ...)
	// is a backslash and that letter; undefined escapes stay rejected whatever the letter
	{`\\e`, `\e`, true}, {`C:\\etc\\hosts`, `C:\etc\hosts`, true}, {`\\a\\b\\f\\v\\x41\\u0041\\101`, `\a\b\f\v\x41\u0041\101`, true},
	{`a\eb`, "", false}, {`\e`, "", false}, {`\c`, "", false}, {`\z`, "", false}, {`\#`, "", false},
}

// VH_C17_str: a double-quoted string whose body is a solver choice.
func VH_C17_str() {
	b := vStrBodies[rt.Choice(len(vStrBodies))]
	lit := `"` + b.src + `"`
	rt.Note(lit)
	n, ok := vParseLit(DOUBLEQUOTE_STR, lit)
	if !b.ok {
		rt.Assert(!ok, "a string with an undefined escape must be rejected, not replaced by another value")
		return
	}
	rt.Assert(ok, "a string literal must parse")
	sl, isStr := n.(*ast.StrLiteral)
	rt.Assert(isStr && sl.Value == b.want, "a quoted string has exactly its characters with the escapes decoded")
}

var vFloats = []string{"1.5", "0.1", "1_0.2_5", "123.456", "0.000001", "1.7976931348623157e308", "1.8e308", "4.9e-324", "1.1e23", "8.41e21", "2.5e-3", "1.5E3", "9007199254740993.0", "0.30000000000000004", "5e-1.0"}

// VH_C17_float: the written decimal is a solver choice; the value must be the nearest float.
func VH_C17_float() {
	lit := vFloats[rt.Choice(len(vFloats))]
	if lit == "5e-1.0" {
		return
	}
	rt.Note(lit)
	clean := strings.Replace(lit, "_", "", -1)
	want, err := vNearest(clean)
	id := FLOAT
	if strings.ContainsAny(lit, "eE") {
		id = EXP_FLOAT
	}
	n, ok := vParseLit(id, lit)
	if err {
		rt.Assert(!ok, "a float literal that cannot be represented must be rejected")
		return
	}
	rt.Assert(ok, "a float literal must parse")
	fl, isF := n.(*ast.FloatLiteral)
	rt.Assert(isF && fl.Value == want, "a float literal is the float nearest to the written decimal")
}

// ---------------------------------------------------------------- strings in context
//
// A quoted string is exactly its characters wherever it stands: the literal is followed by
// further tokens on the same line (another string, an operator, a closing bracket), and the
// text goes through the REAL lexer (token table and regular expressions) and parser in
// every mode.  Bodies include ones that end in an escaped backslash or an escaped quote.

var vStrCtxBodies = []struct{ src, want string }{
	{`abc`, "abc"}, {``, ""}, {`a\\`, `a\`}, {`\\`, `\`}, {`a\\\\`, `a\\`}, {`a\"`, `a"`}, {`\"`, `"`}, {`a\\\"`, `a\"`},
	{`a\nb`, "a\nb"}, {`é\\`, `é\`}, {`x\ty\\`, "x\ty\\"}, {`\\\\`, `\\`}, {`a\\n`, `a\n`},
}

var vStrCtx = []string{`LIT`, `LIT + "b"`, `[LIT, "c"]`, `[LIT]`, `f(LIT, "d")`, `LIT + 'e`, `{a: LIT, b: "f"}`}

func vFirstStr(n ast.Node) (*ast.StrLiteral, bool) {
	switch v := n.(type) {
	case *ast.Program:
		if len(v.Stmts) == 1 {
			return vFirstStr(v.Stmts[0])
		}
	case *ast.ExprStmt:
		return vFirstStr(v.Expr)
	case *ast.StrLiteral:
		return v, true
	case *ast.InfixExpr:
		return vFirstStr(v.Left)
	case *ast.ArrLiteral:
		if len(v.Elems) > 0 {
			return vFirstStr(v.Elems[0])
		}
	}
	return nil, false
}

func VH_C17_strctx() {
	b := vStrCtxBodies[rt.Choice(len(vStrCtxBodies))]
	ctx := vStrCtx[rt.Choice(4)] // contexts whose first string literal is found by vFirstStr
	text := strings.Replace(ctx, "LIT", `"`+b.src+`"`, 1)
	rt.Note(text)
	n, err := Parse(NewReader(strings.NewReader(text), "h"))
	rt.Assert(err == nil && n != nil, "a quoted string followed by other tokens on the same line must parse")
	if err != nil || n == nil {
		return
	}
	sl, ok := vFirstStr(n)
	rt.Assert(ok && sl.Value == b.want, "a quoted string is exactly its characters with the documented escapes decoded, wherever it stands")
	// the remaining contexts: the whole text must parse (the literal must not swallow what follows)
	for _, c := range vStrCtx[4:] {
		t2 := strings.Replace(c, "LIT", `"`+b.src+`"`, 1)
		_, err2 := Parse(NewReader(strings.NewReader(t2), "h"))
		rt.Assert(err2 == nil, "a quoted string followed by other tokens on the same line must parse")
	}
}

// ---------------------------------------------------------------- names in context
//
// A name that merely begins with a reserved word works wherever a name may stand, also as
// the first token of a line (after a line break, blank or comment lines, indentation): the
// program must parse exactly like the same program written with a neutral name.

var vNameHeads = []string{"if", "else", "return", "raise", "yield", "defer"}
var vNameTails = []string{"where", "_x", "y1", "s?", "ing!", "If"}
var vNameCtx = []string{
	"NAME := 5\nNAME",
	"x := 1\nNAME := 5\nNAME",
	"x := 1\n  # c\n\n  NAME := 5\n  NAME",
	"{|| 1\nNAME := 5\nNAME}()",
	"{a: 1,\nNAME: 5}.NAME",
	"\"first\" if false\nNAME",
	"[1,\nNAME]",
	"f(1,\nNAME)",
}

func VH_C17_namectx() {
	name := vNameHeads[rt.Choice(len(vNameHeads))] + vNameTails[rt.Choice(len(vNameTails))]
	ctx := vNameCtx[rt.Choice(len(vNameCtx))]
	text := strings.Replace(ctx, "NAME", name, -1)
	rt.Note(text)
	want, ok0 := vParseText(strings.Replace(ctx, "NAME", "zzname", -1))
	rt.Assert(ok0, "the context must parse with a neutral name")
	got, ok := vParseText(text)
	rt.Assert(ok, "a name that begins with a reserved word works wherever a name may stand")
	rt.Assert(strings.Replace(got, name, "zzname", -1) == want, "a name that begins with a reserved word is one name, wherever it stands")
}
