package parser

import "strconv"

// vNearest: reference for "the float nearest to the written decimal" — Go's correctly
// rounded decimal-to-binary conversion applied to the whole literal at once.
func vNearest(decimal string) (float64, bool) {
	f, err := strconv.ParseFloat(decimal, 64)
	return f, err != nil
}
