package props

// C10 — integer arithmetic and comparison return the mathematically exact result.
// Real code under test: the closures stored in IntProps() under the operator names.

import (
	"math"

	"github.com/Syuparn/pangaea/object"
	rt "github.com/Syuparn/pangaea/zzverifrt"
)

var c10Ops = []string{"+", "-", "*", "//", "%", "<=>", "/", "-%", "**"}

func c10Call(name string, args ...object.PanObject) object.PanObject {
	ps := IntProps(map[string]object.PanObject{})
	fn := ps[name].(*object.PanBuiltIn).Fn
	var res object.PanObject
	pm := rt.Panics(func() { res = fn(nil, object.EmptyPanObjPtr(), args...) })
	rt.Assert(pm == "", "operator must not abort the interpreter")
	return res
}

func c10Int(res object.PanObject) (int64, bool) {
	i, ok := res.(*object.PanInt)
	if !ok {
		return 0, false
	}
	return i.Value, i.Proto() == object.BuiltInIntObj
}

func c10ZeroDiv(res object.PanObject) bool {
	e, ok := res.(*object.PanErr)
	return ok && e.ErrKind == object.ZeroDivisionErr
}

// VH_C10_bin: op index into c10Ops (binary operators), operands any int64.
func VH_C10_bin(op int) {
	name := c10Ops[op]
	a, b := rt.Int64(), rt.Int64()
	res := c10Call(name, object.NewPanInt(a), object.NewPanInt(b))
	switch name {
	case "+":
		v, ok := c10Int(res)
		rt.Assert(ok, "result must be an Int")
		if rt.FitsAdd(a, b) {
			rt.Assert(rt.SpecAdd(a, b, v), "a+b must be the exact sum")
		}
	case "-":
		v, ok := c10Int(res)
		rt.Assert(ok, "result must be an Int")
		if rt.FitsSub(a, b) {
			rt.Assert(rt.SpecSub(a, b, v), "a-b must be the exact difference")
		}
	case "*":
		v, ok := c10Int(res)
		rt.Assert(ok, "result must be an Int")
		if rt.FitsMul(a, b) {
			rt.Assert(rt.SpecMul(a, b, v), "a*b must be the exact product")
		}
	case "//":
		if b == 0 {
			rt.Assert(c10ZeroDiv(res), "floor division by zero must raise ZeroDivisionErr")
			return
		}
		v, ok := c10Int(res)
		rt.Assert(ok, "result must be an Int")
		if !(a == math.MinInt64 && b == -1) {
			rt.Assert(rt.SpecFloorDiv(a, b, v), "a//b must be the floor quotient")
		}
	case "%":
		if b == 0 {
			rt.Assert(c10ZeroDiv(res), "modulus by zero must raise ZeroDivisionErr")
			return
		}
		v, ok := c10Int(res)
		rt.Assert(ok, "result must be an Int")
		rt.Assert(rt.SpecMod(a, b, v), "a%b must be a remainder r with |r|<|b| and b dividing a-r")
	case "<=>":
		v, ok := c10Int(res)
		rt.Assert(ok, "result must be an Int")
		want := int64(0)
		if a < b {
			want = -1
		} else if a > b {
			want = 1
		}
		rt.Assert(v == want, "a<=>b must be -1, 0 or 1 by numeric order")
	case "/":
		if b == 0 {
			rt.Assert(c10ZeroDiv(res), "division by zero must raise ZeroDivisionErr")
			return
		}
		f, ok := res.(*object.PanFloat)
		rt.Assert(ok, "a/b must be a Float")
		want := float64(a) / float64(b)
		rt.Assert(f.Value == want, "a/b must be the float quotient of the operands converted to floats")
	}
}

// VH_C10_neg: unary minus, any int64.
func VH_C10_neg() {
	a := rt.Int64()
	res := c10Call("-%", object.NewPanInt(a))
	v, ok := c10Int(res)
	rt.Assert(ok, "result must be an Int")
	if a != math.MinInt64 {
		rt.Assert(rt.SpecSub(0, a, v), "-a must be the exact negation")
	}
}

// c10Fits reports whether base**e fits in int64 (concrete arguments, no overflow).
func c10Fits(base int64, e int) bool {
	acc := int64(1)
	for i := 0; i < e; i++ {
		if base == 0 || acc == 0 {
			return true
		}
		c := acc * base
		if c/base != acc || (acc == -1 && base == math.MinInt64) || (base == -1 && acc == math.MinInt64) {
			return false
		}
		acc = c
	}
	return true
}

// c10PowRange returns the interval [lo, hi] of bases whose e-th power fits in int64 (e >= 2).
func c10PowRange(e int) (int64, int64) {
	l, h := int64(1), int64(3037000500) // floor(sqrt(2^63)) + 1
	for l < h { // largest hi with hi**e fitting
		m := l + (h-l+1)/2
		if c10Fits(m, e) {
			l = m
		} else {
			h = m - 1
		}
	}
	hi := l
	lo := -hi
	if c10Fits(lo-1, e) { // odd e: (-2)**63 fits although 2**63 does not
		lo--
	}
	return lo, hi
}

// VH_C10_pow: a ** e for a concrete exponent e >= 0 and every int64 base whose power
// fits in 64 bits (for e >= 2 that set is the interval computed by c10PowRange).
func VH_C10_pow(e int) {
	a := rt.Int64()
	if e >= 2 {
		lo, hi := c10PowRange(e)
		rt.Assume(lo <= a && a <= hi)
	}
	res := c10Call("**", object.NewPanInt(a), object.NewPanInt(int64(e)))
	v, ok := c10Int(res)
	rt.Assert(ok, "a**b must be an Int when the power fits in 64 bits")
	rt.Assert(rt.SpecPow(a, int64(e), v), "a**b must be the exact power")
}

var c10Bases = []int64{2, 3, -3, 5, 7, 10, 15, 1000, 94906267, -2097153, 3037000499}

// VH_C10_pow_pool: concrete bases (solver-chosen index) for exponent e — covers the
// float-rounding region (results above 2^53) through whatever arithmetic the
// implementation uses, including math.Pow run natively on concrete values.
func VH_C10_pow_pool(e int) {
	a := c10Bases[rt.Choice(len(c10Bases))]
	if !c10Fits(a, e) {
		return
	}
	res := c10Call("**", object.NewPanInt(a), object.NewPanInt(int64(e)))
	v, ok := c10Int(res)
	rt.Assert(ok, "a**b must be an Int when the power fits in 64 bits (pool)")
	rt.Assert(rt.SpecPow(a, int64(e), v), "a**b must be the exact power (pool)")
}
