package runscript

import (
	"bytes"
	"strings"
)

// VReplLines: the generated pool of REPL lines (zz_verif_gen_replpool.go).
func VReplLines() []string { return vReplLines }

// VH_C01_repl feeds the lines to the real StartREPL (real scanner, mode switching, parser
// and evaluator) and returns what the session printed.
func VH_C01_repl(lines []string) string {
	var out bytes.Buffer
	StartREPL("", strings.NewReader(strings.Join(lines, "\n")+"\n"), &out)
	return out.String()
}
