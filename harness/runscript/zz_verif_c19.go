package runscript

import (
	"bytes"
	"strings"
)

// VH_C19_runtest runs two test files through the real setup + runTest, as RunTest does,
// and reports their exit codes and whether the shared environment gained variables.
func VH_C19_runtest(p1, p2 string) (int, int, bool) {
	var out bytes.Buffer
	in := strings.NewReader("")
	env := setup(in, &out, "")
	n := len(env.Store)
	c1 := runTest(p1, in, &out, env)
	leaked := len(env.Store) != n
	c2 := runTest(p2, in, &out, env)
	return c1, c2, leaked
}
