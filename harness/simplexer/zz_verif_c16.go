package simplexer

// C16 — parsing does not depend on layout volume, token length or input chunking.
// Real code under test: (*Lexer).Scan / Peek / peekBuf / readBufIfNeed / readBuf /
// consumeBuffer with the buffer's CONTENT abstracted away and its LENGTH symbolic.
// One Scan step from an arbitrary state satisfying the invariant "buf is a prefix of the
// unread input" (inductive step: covers files of any size).

import (
	"io"

	rt "github.com/Syuparn/pangaea/zzverifrt"
)

var vRem int64     // bytes of input not yet handed to the lexer
var vTokLen int64  // length T of the true token at the current position
var vDelimited bool // the token is recognised only when complete (string literal, raw string)
var vChunked bool
var vReads int
var vLastRead int64
var vMaxReads = 3

// vTrim replaces (*Lexer).trimRightNullStrings (when the lexer has one) in the engine:
// the prefix before the first NUL of the read buffer is what Read delivered.
func vTrim(l *Lexer, s string) string { return rt.LenStr(vLastRead) }

// vMakeError replaces (*Lexer).makeError in the engine: it scans the buffer's content
// (abstracted away here) only to word the error message.
func vMakeError(l *Lexer) error { return UnknownTokenError{Literal: "?", Position: l.nextPos} }

type vReader struct{}

func (vReader) Read(p []byte) (int, error) {
	if vRem == 0 {
		vLastRead = 0
		return 0, io.EOF
	}
	vReads++
	rt.Assume(vReads <= vMaxReads) // bound on the number of reads per scan
	c := rt.Int64()
	max := int64(len(p))
	if vRem < max {
		max = vRem
	}
	if vChunked {
		// any reader honouring the io.Reader contract: 1..max bytes
		rt.Assume(c >= 1 && c <= max)
	} else {
		rt.Assume(c == max)
	}
	if rt.IsConcrete(c) { // native replay: real bytes (the engine only tracks the count)
		for i := int64(0); i < c; i++ {
			p[i] = 'x'
		}
	}
	vRem -= c
	vLastRead = c
	return int(c), nil
}

// vShiftPos replaces shiftPos in the engine: position bookkeeping is not the subject
func vShiftPos(p Position, s string) Position { return p }

// vWs: whitespace token type — contract: a run of vWsLen blank characters precedes the
// token; it is consumed in pieces of whatever is buffered.
var vWsLen int64

type vWs struct{}

func (vWs) GetID() TokenID { return -1 }
func (w vWs) FindToken(s string, p Position) *Token {
	n := int64(len(s))
	if vWsLen == 0 || n == 0 {
		return nil
	}
	k := vWsLen
	if n < k {
		k = n
	}
	vWsLen -= k
	return &Token{Type: w, Literal: s[:k], Position: p}
}

type vTok struct {
	id   TokenID
	real bool
}

func (t *vTok) GetID() TokenID { return t.id }

// FindToken — contract of a token type whose true token at this position has length T:
// a greedy class (identifier, comment, blank run) matches as much of it as is buffered;
// a delimited class (string, raw string) matches only when it is completely buffered.
func (t *vTok) FindToken(s string, p Position) *Token {
	if !t.real {
		return nil // earlier token types do not match a prefix of the input
	}
	n := int64(len(s))
	if vDelimited {
		if n < vTokLen {
			return nil
		}
		return &Token{Type: t, Literal: s[:vTokLen], Position: p}
	}
	if n == 0 {
		return nil
	}
	if n < vTokLen {
		return &Token{Type: t, Literal: s, Position: p}
	}
	return &Token{Type: t, Literal: s[:vTokLen], Position: p}
}

// VH_C16_scan: chunked = the reader may return short reads; maxTok bounds the token length.
func VH_C16_scan(chunked bool, maxTok int64, delimited bool, maxReads int) {
	vChunked, vReads, vMaxReads = chunked, 0, maxReads
	vDelimited = delimited
	b0, r0, T, W := rt.Int64(), rt.Int64(), rt.Int64(), rt.Int64()
	rt.Assume(b0 >= 0 && b0 <= 4096)
	rt.Assume(r0 >= 0 && r0 <= 8192)
	rt.Assume(W >= 0 && W <= 3000)
	rt.Assume(T >= 1 && T <= maxTok && W+T <= b0+r0)
	vRem, vTokLen, vWsLen = r0, T, W
	l := NewLexer(vReader{})
	l.Whitespace = vWs{}
	l.TokenTypes = []TokenType{&vTok{1, false}, &vTok{2, true}, &vTok{3, false}}
	l.buf = rt.LenStr(b0)
	tok, err := l.Scan()
	rt.Assert(err == nil && tok != nil, "scan must return the token")
	if tok == nil {
		return
	}
	rt.Assert(int64(len(tok.Literal)) == T, "a token of any length is read as one token with its full text, however the reader chunks the input")
	rt.Assert(int64(len(l.buf))+vRem == b0+r0-W-T, "buffer invariant: buf stays the unread prefix of the remaining input")
}
