// Package zzverifrt is the nondet / assertion API used by the verification harnesses.
// It exists only as an overlay (never on disk under /repo).  The symbolic engine
// intercepts these functions by name; the bodies below are the NATIVE REPLAY
// semantics: nondet values are popped from a recorded vector.
package zzverifrt

import (
	"fmt"
	"math"
	"math/big"
	"os"
	"path/filepath"
)

// Vec is the nondet vector of the current replay; Params its concrete parameters.
var (
	Vec    []Entry
	Params []int
	Notes  []string
)

type Entry struct {
	K string `json:"k"`
	V string `json:"v"`
}

type AssumeFailed struct{}
type AssertFailed struct{ Msg string }

var registry = map[string]func(){}

func Register(name string, f func()) { registry[name] = f }
func Lookup(name string) func()      { return registry[name] }

func next(kind string) *big.Int {
	if len(Vec) == 0 {
		panic("REPLAY-VECTOR-EXHAUSTED")
	}
	e := Vec[0]
	Vec = Vec[1:]
	if e.K != kind {
		panic(fmt.Sprintf("REPLAY-KIND-MISMATCH want %s got %s", kind, e.K))
	}
	v, ok := new(big.Int).SetString(e.V, 10)
	if !ok {
		panic("REPLAY-BAD-VALUE " + e.V)
	}
	return v
}

func Int64() int64 { return next("int64").Int64() }
func Bool() bool   { return next("bool").Sign() != 0 }
func Float64() float64 {
	return math.Float64frombits(next("float64").Uint64())
}
func Choice(n int) int {
	v := int(next("int64").Int64())
	if v < 0 || v >= n {
		panic("REPLAY-CHOICE-OUT-OF-RANGE")
	}
	return v
}
func Param(i int) int { return Params[i] }

func Assume(b bool) {
	if !b {
		panic(AssumeFailed{})
	}
}
func Assert(b bool, msg string) {
	if !b {
		panic(AssertFailed{msg})
	}
}
func Known(name string, cond bool) {}
func Reach(id string)              {}
func Note(s string)                { Notes = append(Notes, s) }

// MapOrder: in the engine, ranges over Go maps with 2..n entries iterate in a
// solver-chosen order from now on. Natively Go randomises by itself.
func MapOrder(n int) {}
func Symbolic() bool               { return false }
func IsConcrete(v interface{}) bool { return true }

// Panics runs f and returns a non-empty description if it panicked with a Go panic.
func Panics(f func()) (msg string) {
	defer func() {
		if r := recover(); r != nil {
			switch r.(type) {
			case AssumeFailed, AssertFailed:
				panic(r)
			}
			msg = fmt.Sprintf("panic: %v", r)
		}
	}()
	f()
	return ""
}

func LenStr(n int64) string {
	b := make([]byte, n)
	for i := range b {
		b[i] = 'x'
	}
	return string(b)
}

// ---- exact-arithmetic specifications (math/big natively, Int theory in the engine)

func bi(x int64) *big.Int { return big.NewInt(x) }

func fits(x *big.Int) bool { return x.IsInt64() }

// SpecFloorDiv: q == floor(a/b) for b != 0.
func SpecFloorDiv(a, b, q int64) bool {
	if b == 0 {
		return false
	}
	r := new(big.Int).Sub(bi(a), new(big.Int).Mul(bi(q), bi(b)))
	if b > 0 {
		return r.Sign() >= 0 && r.Cmp(bi(b)) < 0
	}
	return r.Sign() <= 0 && r.Cmp(bi(b)) > 0
}

// SpecMod: |r| < |b| and b divides a-r.
func SpecMod(a, b, r int64) bool {
	if b == 0 {
		return false
	}
	if new(big.Int).Abs(bi(r)).Cmp(new(big.Int).Abs(bi(b))) >= 0 {
		return false
	}
	d := new(big.Int).Sub(bi(a), bi(r))
	return new(big.Int).Rem(d, bi(b)).Sign() == 0
}
func SpecMul(a, b, res int64) bool { return new(big.Int).Mul(bi(a), bi(b)).Cmp(bi(res)) == 0 }
func SpecAdd(a, b, res int64) bool { return new(big.Int).Add(bi(a), bi(b)).Cmp(bi(res)) == 0 }
func SpecSub(a, b, res int64) bool { return new(big.Int).Sub(bi(a), bi(b)).Cmp(bi(res)) == 0 }
func FitsMul(a, b int64) bool      { return fits(new(big.Int).Mul(bi(a), bi(b))) }
func FitsAdd(a, b int64) bool      { return fits(new(big.Int).Add(bi(a), bi(b))) }
func FitsSub(a, b int64) bool      { return fits(new(big.Int).Sub(bi(a), bi(b))) }

func pow(a int64, e int64) *big.Int { return new(big.Int).Exp(bi(a), bi(e), nil) }

// SpecPow: res == a**e exactly (e >= 0, concrete in harnesses).
func SpecPow(a, e, res int64) bool { return pow(a, e).Cmp(bi(res)) == 0 }
func FitsPow(a, e int64) bool      { return fits(pow(a, e)) }

// TempFile makes a file with the given content available under a path (natively a real
// temporary file; in the engine a virtual file served by the os.Open intrinsic).
func TempFile(name, content string) string {
	p := filepath.Join(os.TempDir(), name)
	if err := os.WriteFile(p, []byte(content), 0o644); err != nil {
		panic(err)
	}
	return p
}
