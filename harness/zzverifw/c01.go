package zzverifw

// C01 — no host-level crash: every program ends in a value or a Pangaea error.
// Real code under test: every built-in function object reachable from the constants
// environment (props/*.go, evaluator's property container, di's), called directly with
// arbitrary argument shapes; and property lookup / printing on every built-in object.

import (
	"bytes"
	"fmt"
	"github.com/Syuparn/pangaea/runscript"
	"sort"
	"strings"

	"github.com/Syuparn/pangaea/object"
	rt "github.com/Syuparn/pangaea/zzverifrt"
)

func init() {
	rt.Register("H_C01_repl", H_C01_repl)
	rt.Register("H_C01_builtin", H_C01_builtin)
	rt.Register("H_C01_singletons", H_C01_singletons)
}

type c01Fn struct {
	name string
	fn   *object.PanBuiltIn
}

var c01Skip = map[string]bool{
	// process / file / network I/O is outside the engine (and not value computation)
	"Kernel.import": true, "Kernel.invite!": true, "Kernel.exit": true, "Str.eval": true, "Str.evalEnv": true,
}

// c01Builtins lists every built-in function object stored in a property of an object
// named in the constants environment.
func c01Builtins() []c01Fn {
	World()
	var out []c01Fn
	var names []string
	byName := map[string]*object.PanObj{}
	for hsh, v := range Env.Store {
		if o, ok := v.(*object.PanObj); ok {
			s, _ := object.SymHash2Str(hsh)
			n := s.(*object.PanStr).Value
			names = append(names, n)
			byName[n] = o
		}
	}
	sort.Strings(names)
	seen := map[*object.PanBuiltIn]bool{}
	for _, n := range names {
		o := byName[n]
		if o.Pairs == nil {
			continue
		}
		var ps []string
		vals := map[string]object.PanObject{}
		for _, p := range *o.Pairs {
			k := p.Key.(*object.PanStr).Value
			ps = append(ps, k)
			vals[k] = p.Value
		}
		sort.Strings(ps)
		for _, k := range ps {
			if b, ok := vals[k].(*object.PanBuiltIn); ok && !seen[b] && !c01Skip[n+"."+k] {
				seen[b] = true
				out = append(out, c01Fn{n + "." + k, b})
			}
		}
	}
	return out
}

var c01Shapes = []string{
	`nil`, `true`, `""`, `"añb"`, `[]`, `[1, nil]`, `{}`, `{a: 1}`, `%{}`, `%{[1]: 2}`, `(1:3)`, `(nil:nil:nil)`, `{|x| x}`,
	`<{|n| yield n if n < 2; recur(n + 1)}>.new(0)`, `1.try`, `1.try.{|q| q / 0}`, `1.try.{|q| q / 0}.err`, `1.5`, `Int`, `Obj`, `BaseObj`, `Int.bear`, `[1].bear`, `"s".bear`, `'sym`, `?c`,
	`true - true`, `Int.bear.new(0)`, `Float.bear.new(0.0)`, `Str.bear.new("")`, `[["k", 1]]`, `[["s".bear({}), 1]]`, `[[Str, 1]]`, `[[1, 2], [3]]`, `{a: {b: [1]}}`,
}

// generic consumers of a built-in's result: printing, comparison, unpacking into calls and
// literals, iteration, interpolation
var c01Consumers = []string{"r.S", "r.repr", "r == r", "[*r]", "{**r}", "%{**r}", "{|x| \\_}(**r)", "{|x| \\0}(*r)", "r@{|x| x}", "r.keys", "\"#{r}\"", "r.B", "r.A", "r.try.A"}

// c01Arg: a value for one argument position: a symbolic int, a symbolic float, or one of
// the concrete shapes (solver choice).  For the indexing built-ins (indexer) the first
// choices are the index forms with symbolic payloads: [i], [(a:b:c)] and (a:b:c) with i any
// int64 and each range bound nil or any int64.
// c01Boundary: the reduced shape set used for EVERY built-in with two arguments in the quick
// tier (empty and smallest values of each kind, boundary ints and floats)
var c01BoundaryMode bool

var c01Boundary = []string{`nil`, `""`, `"añb"`, `[]`, `[1, nil]`, `{}`, `%{}`, `(1:3)`, `{|x| x}`, `0`, `-1`, `7`, `-9223372036854775807 - 1`, `0.0`, `"NaN".F`, `true`, `true - true`, `Int.bear.new(0)`}

func c01Arg(h *H, symbolic, indexer bool) object.PanObject {
	if c01BoundaryMode {
		return h.Eval(c01Boundary[rt.Choice(len(c01Boundary))])
	}
	extra := 0
	if indexer {
		extra = 3
	}
	c := rt.Choice(len(c01Shapes)+2+extra) - extra
	if c < 0 {
		bound := func() object.PanObject {
			if rt.Bool() {
				return object.BuiltInNil
			}
			return object.NewPanInt(rt.Int64())
		}
		// the step: nil, a small concrete step (queries with a concrete divisor are cheap, so these
		// paths are decided first), or any int64
		step := func() object.PanObject {
			switch rt.Choice(6) {
			case 0:
				return object.BuiltInNil
			case 1:
				return object.NewPanInt(1)
			case 2:
				return object.NewPanInt(-1)
			case 3:
				return object.NewPanInt(2)
			case 4:
				return object.NewPanInt(-3)
			}
			return object.NewPanInt(rt.Int64())
		}
		switch c {
		case -3:
			return object.NewPanArr(object.NewPanInt(rt.Int64()))
		case -2:
			return object.NewPanArr(object.NewPanRange(bound(), bound(), step()))
		}
		return object.NewPanRange(bound(), bound(), step())
	}
	switch c {
	case 0:
		if symbolic {
			return object.NewPanInt(rt.Int64())
		}
		// (huge positive counts only exhaust memory: excluded by the statement)
		return object.NewPanInt([]int64{0, -1, 7, -1 << 63}[rt.Choice(4)])
	case 1:
		if symbolic {
			return object.NewPanFloat(rt.Float64())
		}
		return h.Eval([]string{`0.0`, `-2.5`, `"NaN".F`, `"Inf".F`}[rt.Choice(4)])
	}
	return h.Eval(c01Shapes[c-2])
}

// H_C01_builtin: shard Param(0) of Param(1) of the built-in list; arity Param(2).
func H_C01_builtin() {
	h := NewH()
	// standard input is empty (already exhausted), output is discarded: the built-ins that read
	// or print run instead of ending in NameErr
	h.Env.InjectIO(strings.NewReader(""), &bytes.Buffer{})
	fs := c01Builtins()
	c01BoundaryMode = rt.Param(3) == 3
	if rt.Param(3) == 2 {
		// the indexing built-ins (a[i], a[r], s[r], n[r], r[r], o['k], m[k]): all of them in every
		// tier (they are what `recv[index]` calls with user-written index values)
		var at []c01Fn
		for _, f := range fs {
			if strings.HasSuffix(f.name, ".at") {
				at = append(at, f)
			}
		}
		fs = at
	}
	lo := len(fs) * rt.Param(0) / rt.Param(1)
	hi := len(fs) * (rt.Param(0) + 1) / rt.Param(1)
	if hi <= lo {
		return
	}
	f := fs[lo+rt.Choice(hi-lo)]
	arity := rt.Param(2)
	args := make([]object.PanObject, arity)
	for i := range args {
		args[i] = c01Arg(h, arity <= 1, rt.Param(3) == 2 && i == 1) // scalar payloads are symbolic for arity 0..1, boundary constants for arity 2
		_, isErr := args[i].(*object.PanErr)
		rt.Assume(!isErr)
	}
	rt.Note(fmt.Sprintf("%s/%d", f.name, arity))
	var res object.PanObject
	pm := rt.Panics(func() { res = f.fn.Fn(h.Env, object.EmptyPanObjPtr(), args...) })
	rt.Assert(pm == "", "a built-in must not abort the interpreter, whatever arguments reach it")
	if pm == "" {
		rt.Assert(res != nil, "a built-in returns a value or a Pangaea error")
	}
	// second step: whatever value a built-in returned must survive the generic consumers
	if _, isErr := res.(*object.PanErr); pm == "" && res != nil && !isErr && arity <= 1 && rt.Param(3) == 1 {
		h.Set("r", res)
		for _, c := range c01Consumers {
			var out object.PanObject
			pm2 := rt.Panics(func() { out = h.Eval(c) })
			rt.Assert(pm2 == "", "a value returned by a built-in must not abort the interpreter when it is printed, compared, unpacked or iterated")
			_ = out
		}
	}
}

// H_C01_repl: a REPL session of three lines through the real StartREPL.  The first line is a
// solver choice from the generated pool (the string literals of /repo/runscript, i.e. the
// REPL's own commands and prompts, perturbed in case, blanks, truncation, duplication) plus
// a few programs; the second line is a command, a program, an unfinished program or empty.
func H_C01_repl() {
	pool := append(append([]string{}, runscript.VReplLines()...), "1 + 1", "", "(", "raise ValueErr.new(\"x\")", "multi", "single")
	lo := len(pool) * rt.Param(0) / rt.Param(1)
	hi := len(pool) * (rt.Param(0) + 1) / rt.Param(1)
	if hi <= lo {
		return
	}
	l1 := pool[lo+rt.Choice(hi-lo)]
	seconds := []string{"1 + 1", "", "(", "multi", "single", "Multi", "x := 1", "<>.S", "<>.p"}
	l2 := seconds[rt.Choice(len(seconds))]
	// the last line may read standard input after it is exhausted
	thirds := []string{"1 + 1", "<>.S", "<>.p", "\"x#{<>}y\".p", "<>.uc.p", "<>@{|l| l.S}.p"}
	l3 := thirds[rt.Choice(len(thirds))]
	rt.Note(fmt.Sprintf("%q / %q / %q", l1, l2, l3))
	var out string
	pm := rt.Panics(func() { out = runscript.VH_C01_repl([]string{l1, l2, l3}) })
	rt.Assert(pm == "", "a REPL line must not abort the interpreter, whatever is typed")
	if pm == "" {
		rt.Assert(strings.Contains(out, "Pangaea"), "the REPL session runs and prints its banner")
	}
}

var c01Probes = []string{`x.S`, `x.repr`, `x.keys`, `x['a]`, `x.nosuchprop`, `x == x`, `x.proto`, `x.B`, `x.A`, `x.bear`, `x.which('S)`, `[x].S`, `{a: x}.S`, `%{x: x}.S`, `x.try.A`}

// H_C01_singletons: every object named in the constants environment survives the
// generic operations (printing, lookup, comparison) — the probe is a solver choice.
func H_C01_singletons() {
	World()
	var names []string
	for hsh := range Env.Store {
		s, _ := object.SymHash2Str(hsh)
		names = append(names, s.(*object.PanStr).Value)
	}
	sort.Strings(names)
	lo := len(names) * rt.Param(0) / rt.Param(1)
	hi := len(names) * (rt.Param(0) + 1) / rt.Param(1)
	name := names[lo+rt.Choice(hi-lo)]
	probe := c01Probes[rt.Choice(len(c01Probes))]
	h := NewH()
	v, _ := Env.Get(object.GetSymHash(name))
	if _, isErr := v.(*object.PanErr); isErr {
		return // the variable _ holds an error value: naming it raises
	}
	h.Set("x", v)
	rt.Note(name + ": " + probe)
	h.EvalNoPanic(probe)
}
