package zzverifw

// C03 — lexical scoping and argument binding of functions and methods.
// Real code under test: evalFunc/evalCallable, evalPanFuncCall, assignArgsToEnv/paddedArgs,
// evalArgs (*, ** unpacking), evalKwargs, evalFuncMethodCall, extractAnonChainRecv,
// evalAssign / compound assign, Env.Get/Set/NewCopiedEnv/NewEnclosedEnv.

import (
	"fmt"
	"strings"

	"github.com/Syuparn/pangaea/object"
	rt "github.com/Syuparn/pangaea/zzverifrt"
)

func init() {
	rt.Register("H_C03_bind", H_C03_bind)
	rt.Register("H_C03_scope", H_C03_scope)
}

// H_C03_bind: a function with np = Param(0) positional and nk = Param(1) keyword
// parameters is called with a solver-chosen argument list: 0..4 positional arguments
// (optionally the tail given as *[...]), and for each of the keywords k1, k2 and the
// unknown zz: absent / written before the positionals / written after them / given
// through **{...}.
func H_C03_bind() {
	np, nk := rt.Param(0), rt.Param(1)
	h := NewH()
	var params []string
	for i := 1; i <= np; i++ {
		params = append(params, fmt.Sprintf("p%d", i))
	}
	kwNames := []string{"k1", "_k2"}[:nk] // (the second keyword parameter has a private name)
	for i, k := range kwNames {
		params = append(params, fmt.Sprintf("%s: %d", k, 91+i))
	}
	var body []string
	for i := 1; i <= np; i++ {
		body = append(body, fmt.Sprintf("p%d", i))
	}
	for _, k := range kwNames {
		body = append(body, k)
	}
	// g is a variable of the scope where the literal is written; the body reads it
	def := "g := 77; f := {|" + strings.Join(params, ", ") + "| [[" + strings.Join(body, ", ") + "], \\0, \\_, g]}"
	if np+nk == 0 {
		def = "g := 77; f := {|| [[], \\0, \\_, g]}"
	}
	h.EvalNoPanic(def)
	// the keyword the function does not declare: a fresh name, the name of the first
	// positional parameter, or the name of the outer variable the body reads
	unknown := []string{"zz", "p1", "g"}[rt.Choice(3)]

	na := rt.Choice(5)
	star := na >= 2 && rt.Bool() // last two positionals written as *[a, b]
	var pos []string
	for i := 1; i <= na; i++ {
		pos = append(pos, fmt.Sprint(i))
	}
	if star {
		pos = append(pos[:na-2], fmt.Sprintf("*[%d, %d]", na-1, na))
	}
	// keyword arguments
	passed := map[string]int64{}
	var order []string
	var before, after, unpack []string
	for i, k := range []string{"k1", "_k2", unknown} {
		v := int64(50 + i)
		switch rt.Choice(4) {
		case 1:
			before = append(before, fmt.Sprintf("%s: %d", k, v))
			passed[k] = v
			order = append(order, k)
		case 2:
			after = append(after, fmt.Sprintf("%s: %d", k, v))
			passed[k] = v
			order = append(order, k)
		case 3:
			unpack = append(unpack, fmt.Sprintf("%s: %d", k, v))
			passed[k] = v
			order = append(order, k)
		}
	}
	var items []string
	items = append(items, before...)
	items = append(items, pos...)
	items = append(items, after...)
	if len(unpack) > 0 {
		items = append(items, "**{"+strings.Join(unpack, ", ")+"}")
	}
	call := "f(" + strings.Join(items, ", ") + ")"
	rt.Note(def + "; " + call)
	res := h.EvalNoPanic(call)
	out, ok := res.(*object.PanArr)
	rt.Assert(ok && len(out.Elems) == 4, "the call must return the bound values")
	if !ok || len(out.Elems) != 4 {
		return
	}
	rt.Assert(isInt(out.Elems[3], 77), "the body sees the variable of the scope where the literal was written (a keyword the function does not declare is not a variable of the call)")
	bound, ok := out.Elems[0].(*object.PanArr)
	rt.Assert(ok && len(bound.Elems) == np+nk, "every parameter is bound")
	for i := 0; i < np; i++ {
		if i < na {
			rt.Assert(isInt(bound.Elems[i], int64(i+1)), "parameters are bound positionally")
		} else {
			rt.Assert(isNil(bound.Elems[i]), "missing positional arguments are nil")
		}
	}
	for i, k := range kwNames {
		if v, given := passed[k]; given {
			rt.Assert(isInt(bound.Elems[np+i], v), "a keyword parameter takes the passed value wherever the keyword appears")
		} else {
			rt.Assert(isInt(bound.Elems[np+i], int64(91+i)), "a keyword parameter not passed takes its default")
		}
	}
	all, ok := out.Elems[1].(*object.PanArr)
	rt.Assert(ok && len(all.Elems) >= na, `\0 holds the arguments received`)
	if ok && len(all.Elems) >= na {
		for i := 0; i < len(all.Elems); i++ {
			if i < na {
				rt.Assert(isInt(all.Elems[i], int64(i+1)), `\0 holds the positional arguments in order (extra ones are not dropped)`)
			} else {
				rt.Assert(isNil(all.Elems[i]) && i < np, `\0 holds nothing but the arguments (padded with nil up to the parameter count)`)
			}
		}
	}
	kw, ok := out.Elems[2].(*object.PanObj)
	rt.Assert(ok && len(*kw.Pairs) == len(passed), `\_ holds exactly the keyword arguments received`)
	if ok {
		for k, v := range passed {
			p, has := (*kw.Pairs)[object.GetSymHash(k)]
			rt.Assert(has && isInt(p.Value, v), `\_ holds exactly the keyword arguments received`)
		}
	}
	// \N, \ and \name
	if na > 0 {
		r := h.EvalNoPanic("{|| [\\, \\1]}(" + strings.Join(items, ", ") + ")")
		a, ok := r.(*object.PanArr)
		rt.Assert(ok && len(a.Elems) == 2 && isInt(a.Elems[0], 1) && isInt(a.Elems[1], 1), `\ and \1 are the first argument`)
		r = h.EvalNoPanic(fmt.Sprintf("{|| \\%d}(", na) + strings.Join(items, ", ") + ")")
		rt.Assert(isInt(r, int64(na)), `\N is the N-th argument`)
	}
	r := h.EvalNoPanic(fmt.Sprintf("{|| \\%d}(", na+1) + strings.Join(items, ", ") + ")")
	rt.Assert(isErrKind(r, object.NameErr), `\N beyond the arguments received is not defined`)
	for _, k := range order {
		r := h.EvalNoPanic("{|| \\" + k + "}(" + strings.Join(items, ", ") + ")")
		rt.Assert(isInt(r, passed[k]), `\name is the keyword argument of that name`)
	}
	_ = order
}

type c03S struct {
	name, src string
	check     func(res object.PanObject, a, b int64) bool
}

func arrOfInts(res object.PanObject, want ...int64) bool {
	arr, ok := res.(*object.PanArr)
	if !ok || len(arr.Elems) != len(want) {
		return false
	}
	for i, w := range want {
		if !isInt(arr.Elems[i], w) {
			return false
		}
	}
	return true
}

var c03Scenarios = []c03S{
	{"a closure sees later reassignments in its defining scope", `x := a; f := {|| x}; x := b; f()`,
		func(r object.PanObject, a, b int64) bool { return isInt(r, b) }},
	{"a body never sees the caller's variables", `x := a; f := {|| x}; g := {|| x := b; f()}; g()`,
		func(r object.PanObject, a, b int64) bool { return isInt(r, a) }},
	{"assignment inside a body does not change the enclosing scope", `x := a; f := {|| x := b; x}; [f(), x]`,
		func(r object.PanObject, a, b int64) bool { return arrOfInts(r, b, a) }},
	{"compound assignment inside a body updates only the call's own variable", `x := a; f := {|| x += 1; x}; [f(), x, f()]`,
		func(r object.PanObject, a, b int64) bool { return arrOfInts(r, a+1, a, a+1) }},
	{"sibling calls do not share variables", `f := {|| y := a; y}; g := {|| y}; [f(), g.try.call.err?]`,
		func(r object.PanObject, a, b int64) bool {
			arr, ok := r.(*object.PanArr)
			return ok && len(arr.Elems) == 2 && isInt(arr.Elems[0], a) && arr.Elems[1] == object.BuiltInTrue
		}},
	{"recursive calls have their own frames", `f := {|n| m := n + a; r := f(n - 1) if n > 0; m}; [f(0), f(2)]`,
		func(r object.PanObject, a, b int64) bool { return arrOfInts(r, a, a+2) }},
	{"a parameter shadows an outer variable without changing it", `x := a; f := {|x| x}; [f(b), x]`,
		func(r object.PanObject, a, b int64) bool { return arrOfInts(r, b, a) }},
	{"each call of a function-making function has its own captured variables", `mk := {|n| {|| n}}; f1 := mk(a); f2 := mk(b); [f1(), f2(), f1()]`,
		func(r object.PanObject, a, b int64) bool { return arrOfInts(r, a, b, a) }},
	{"a property call passes the receiver first", `o := {v: a, get: m{|d| self.v + d}, raw: {|r, d| r.v - d}}; [o.get(1), o.raw(1)]`,
		func(r object.PanObject, a, b int64) bool { return arrOfInts(r, a+1, a-1) }},
	{"a receiver-less chain uses the current function's first argument", `o := {v: a, w: b, both: m{|| [.v, .w]}}; [o.both, {|x| .v}(o)]`,
		func(r object.PanObject, a, b int64) bool {
			arr, ok := r.(*object.PanArr)
			return ok && len(arr.Elems) == 2 && arrOfInts(arr.Elems[0], a, b) && isInt(arr.Elems[1], a)
		}},
	{"each call starts from the defining scope, not from the previous call", `cnt := {|| c := a; c += 1; c}; [cnt(), cnt()]`,
		func(r object.PanObject, a, b int64) bool { return arrOfInts(r, a+1, a+1) }},
	{"closures made in a chain capture their own element", `fs := [a, b]@{|i| {|| i}}; fs@{|f| f()}`,
		func(r object.PanObject, a, b int64) bool {
			if a == 0 || b == 0 {
				return true // (values whose closure list is filtered are outside this scenario)
			}
			return arrOfInts(r, a, b)
		}},
	{"a nested closure reads through two scopes and writes to none", `x := a; f := {|| y := b; g := {|| x := x + y; x}; [g(), x, y]}; [f(), x]`,
		func(r object.PanObject, a, b int64) bool {
			arr, ok := r.(*object.PanArr)
			return ok && len(arr.Elems) == 2 && arrOfInts(arr.Elems[0], a+b, a, b) && isInt(arr.Elems[1], a)
		}},
	{"* unpacking produces exactly the arguments written, also when a later argument unpacks the same array", `xs := [a, b, 3]; f := {|| \0}; g := {|| \0}; f(*xs, 4, g(*xs, 5))`,
		func(r object.PanObject, a, b int64) bool {
			arr, ok := r.(*object.PanArr)
			return ok && len(arr.Elems) == 5 && isInt(arr.Elems[0], a) && isInt(arr.Elems[1], b) && isInt(arr.Elems[2], 3) && isInt(arr.Elems[3], 4) && arrOfInts(arr.Elems[4], a, b, 3, 5)
		}},
	{"named parameters after * unpacking are the arguments written", `xs := [a, b, 3, 4, 5]; g := {|| \0}; {|p, q, r, s, t, u| [u, g(*xs, 7)]}(*xs, 6, g(*xs, 8))`,
		func(r object.PanObject, a, b int64) bool {
			arr, ok := r.(*object.PanArr)
			return ok && len(arr.Elems) == 2 && isInt(arr.Elems[0], 6) && arrOfInts(arr.Elems[1], a, b, 3, 4, 5, 7)
		}},
	{"** unpacking produces exactly the keyword arguments written, also when unpacked twice", `o := {k: a}; p := {l: b}; f := {|| \_}; g := {|| \_}; [f(**o, **p), g(**o), o, p]`,
		func(r object.PanObject, a, b int64) bool {
			arr, ok := r.(*object.PanArr)
			if !ok || len(arr.Elems) != 4 {
				return false
			}
			n := func(o object.PanObject) int {
				if po, ok := o.(*object.PanObj); ok {
					return len(*po.Pairs)
				}
				return -1
			}
			return n(arr.Elems[0]) == 2 && n(arr.Elems[1]) == 1 && n(arr.Elems[2]) == 1 && n(arr.Elems[3]) == 1
		}},
	{"a keyword the function does not declare binds no parameter and no variable", `x := a; f := {|p, k: 0| [p, x, k, {|| [p, x]}()]}; f(1, x: b, p: b)`,
		func(r object.PanObject, a, b int64) bool {
			arr, ok := r.(*object.PanArr)
			return ok && len(arr.Elems) == 4 && isInt(arr.Elems[0], 1) && isInt(arr.Elems[1], a) && isInt(arr.Elems[2], 0) && arrOfInts(arr.Elems[3], 1, a)
		}},
	{"a keyword default is evaluated in the scope of each evaluation of the literal", `mk := {|n| {|x, step: n| x + step}}; f1 := mk(a); f2 := mk(b); om := {|n| {get: m{|k: n| k}}}; o1 := om(a); o2 := om(b); [f1(0), f2(0), f1(0), f2(0, step: 5), o1.get, o2.get]`,
		func(r object.PanObject, a, b int64) bool { return arrOfInts(r, a, b, a, 5, a, b) }},
	{"\\N is the N-th argument for every N (one and two digits)", `f := {|| [\1, \2, \3, \4, \5, \6, \7, \8, \9, \10, \11, \12, \0.len]}; f(a, 2, 3, 4, 5, 6, 7, 8, 9, 10, 11, b)`,
		func(r object.PanObject, a, b int64) bool {
			return arrOfInts(r, a, 2, 3, 4, 5, 6, 7, 8, 9, 10, 11, b, 12)
		}},
	{"named parameters and \\N agree for a call with many arguments", `g := {|p1, p2, p3, p4, p5, p6, p7, p8, p9, p10, p11| [p10, \10, p11, \11, p9, \9]}; g(1, 2, 3, 4, 5, 6, 7, 8, a, b, 11)`,
		func(r object.PanObject, a, b int64) bool { return arrOfInts(r, b, b, 11, 11, a, a) }},
	{"(known finding C03/arg-vars-of-enclosing-call) \\N of a function called without arguments is not defined, also inside another call", `{|p| {|| \1}()}(a)`,
		func(r object.PanObject, a, b int64) bool { return isErrKind(r, object.NameErr) }},
	{"a method body sees its defining scope, not the receiver's properties as variables", `v := a; o := {v: b, get: m{|| v}}; o.get`,
		func(r object.PanObject, a, b int64) bool { return isInt(r, a) }},
}

// H_C03_scope: fixed scoping scenarios with symbolic int inputs a, b.
func H_C03_scope() {
	s := c03Scenarios[rt.Param(0)]
	rt.Known("C03/arg-vars-of-enclosing-call", strings.HasPrefix(s.name, "(known finding C03/arg-vars-of-enclosing-call)"))
	h := NewH()
	a, b := rt.Int64(), rt.Int64()
	rt.Assume(a > -1000000 && a < 1000000 && b > -1000000 && b < 1000000)
	h.Set("a", object.NewPanInt(a))
	h.Set("b", object.NewPanInt(b))
	rt.Note(s.src)
	res := h.EvalNoPanic(s.src)
	rt.Assert(s.check(res, a, b), s.name)
	// the harness scope itself must still hold the inputs (nothing leaked out of a call)
	rt.Assert(isInt(h.EvalNoPanic(`a`), a) && isInt(h.EvalNoPanic(`b`), b), "calls never change variables of an enclosing scope")
}
