package zzverifw

// C04 — chain contexts apply their documented per-element rule in all three call forms.
// Real code under test: newChainMiddleware / newLiteralCallChainMiddleware and all
// list / reduce / lonely / thoughtful / strict middlewares, evalPropCall, evalLiteralCall,
// evalVarCall, iterOf, Arr#digest.

import (
	"fmt"

	"github.com/Syuparn/pangaea/object"
	rt "github.com/Syuparn/pangaea/zzverifrt"
)

func init() {
	rt.Register("H_C04_list", H_C04_list)
	rt.Register("H_C04_reduce", H_C04_reduce)
	rt.Register("H_C04_scalar", H_C04_scalar)
	rt.Register("H_C04_recv", H_C04_recv)
	rt.Register("H_C04_digest", H_C04_digest)
}

// NIL is nil itself or a nil made with Nil.bear(...).new (prints as nil, == nil, NilType)
const c04SetupNil = `NIL := nil`
const c04SetupInheritedNil = `NilKid := Nil.bear({}); NIL := NilKid.new`
const c04SetupP = `P := {
  act: m{|d| raise ValueErr.new("neg") if self.v < 0; return NIL if self.v == 0; self.v + d},
  comb: m{|e, d| raise ValueErr.new("neg") if e.v < 0; return NIL if e.v == 0; P.bear({v: self.v + e.v + d})},
}`

func c04Setup(h *H, inheritedNil bool) {
	if inheritedNil {
		h.Eval(c04SetupInheritedNil)
	} else {
		h.Eval(c04SetupNil)
	}
	h.Eval(c04SetupP)
}

func isNilLike(o object.PanObject) bool { return o != nil && o.Type() == object.NilType }

// outcome of the callee on one element, decided by the element's (symbolic) payload
type c04Out struct {
	kind int // 0 value, 1 nil, 2 error ValueErr "neg", 3 NoPropErr (callee looked up on nil)
	val  int64
}

type c04Elem struct {
	isNil bool
	x     int64
	obj   object.PanObject
}

func c04MakeElem(h *H, name string, allowNil bool) c04Elem {
	if allowNil && rt.Bool() {
		n := h.Eval(`NIL`)
		h.Set(name, n)
		return c04Elem{isNil: true, obj: n}
	}
	x := rt.Int64()
	rt.Assume(x > -1000 && x < 1000)
	h.Set("x_", object.NewPanInt(x))
	o := h.Eval(fmt.Sprintf(`%s := P.bear({v: x_})`, name))
	return c04Elem{x: x, obj: o}
}

func (e c04Elem) act(d int64) c04Out {
	switch {
	case e.isNil:
		return c04Out{kind: 3}
	case e.x < 0:
		return c04Out{kind: 2}
	case e.x == 0:
		return c04Out{kind: 1}
	}
	return c04Out{kind: 0, val: e.x + d}
}

func c04IsOut(res object.PanObject, o c04Out) bool {
	switch o.kind {
	case 0:
		return isInt(res, o.val)
	case 1:
		return isNilLike(res)
	case 2:
		e, ok := res.(*object.PanErr)
		return ok && e.ErrKind == object.ValueErr && e.Msg == "neg"
	}
	return isErrKind(res, object.NoPropErr)
}

// c04Same: structural agreement of the three call forms' results.
func c04Same(a, b object.PanObject) bool {
	switch x := a.(type) {
	case *object.PanInt:
		y, ok := b.(*object.PanInt)
		return ok && x.Value == y.Value
	case *object.PanErr:
		y, ok := b.(*object.PanErr)
		return ok && x.ErrKind == y.ErrKind && x.Msg == y.Msg
	case *object.PanArr:
		y, ok := b.(*object.PanArr)
		if !ok || len(x.Elems) != len(y.Elems) {
			return false
		}
		for i := range x.Elems {
			if !c04Same(x.Elems[i], y.Elems[i]) {
				return false
			}
		}
		return true
	case *object.PanObj:
		if a == b {
			return true
		}
		y, ok := b.(*object.PanObj)
		if !ok {
			return false
		}
		vx, ok1 := (*x.Pairs)[object.GetSymHash("v")]
		vy, ok2 := (*y.Pairs)[object.GetSymHash("v")]
		return ok1 && ok2 && c04Same(vx.Value, vy.Value)
	}
	return a == b
}

var c04ListChains = []string{"@", "=@", "~@", "&@"}

// H_C04_list: list chains over an array of n = Param(0) elements (object with symbolic
// payload, or nil); Param(1) selects the chain context; all three call forms.
func H_C04_list() {
	n, ci := rt.Param(0), rt.Param(1)
	chain := c04ListChains[ci]
	h := NewH()
	c04Setup(h, rt.Param(3) == 1)
	elems := make([]c04Elem, n)
	names := ""
	for i := range elems {
		elems[i] = c04MakeElem(h, fmt.Sprintf("e%d", i), true)
		if i > 0 {
			names += ", "
		}
		names += fmt.Sprintf("e%d", i)
	}
	h.Eval(`xs := [` + names + `]; f := {|e| e.act(10)}`)
	arg := ""
	if rt.Param(2) == 1 {
		arg = "([])" // chain argument: digest the collected results into an array
	}
	prop := h.EvalNoPanic(`xs` + chain + arg + `act(10)`)
	lit := h.EvalNoPanic(`xs` + chain + arg + `{|e| e.act(10)}`)
	vr := h.EvalNoPanic(`xs` + chain + arg + `^f`)
	rt.Note(`xs` + chain + arg + `act(10)`)

	// reference (DESIGN.md Appendix B, C04)
	var want []c04Out
	var wantElem []int // for ~@ substitution: index of the element, or -1
	failed := -1
	for i, e := range elems {
		o := e.act(10)
		switch chain {
		case "@", "=@":
			if o.kind >= 2 {
				failed = i
			} else if o.kind == 1 && chain == "@" {
				continue
			} else {
				want = append(want, o)
				wantElem = append(wantElem, -1)
			}
		case "~@":
			if o.kind >= 1 {
				want = append(want, c04Out{})
				wantElem = append(wantElem, i)
			} else {
				want = append(want, o)
				wantElem = append(wantElem, -1)
			}
		case "&@":
			if e.isNil {
				continue // call skipped, yields nil, which a list chain drops
			}
			if o.kind == 2 {
				failed = i
			} else if o.kind == 1 {
				continue
			} else {
				want = append(want, o)
				wantElem = append(wantElem, -1)
			}
		}
		if failed >= 0 {
			break
		}
	}
	check := func(res object.PanObject, form string) {
		if failed >= 0 {
			rt.Assert(c04IsOut(res, elems[failed].act(10)), "a failing call aborts the list chain with its error ("+form+")")
			return
		}
		a, ok := res.(*object.PanArr)
		rt.Assert(ok && len(a.Elems) == len(want), "a list chain returns the calls' results in order, nil dropped unless strict ("+form+")")
		for i := range want {
			if wantElem[i] >= 0 {
				rt.Assert(a.Elems[i] == elems[wantElem[i]].obj, "the thoughtful list chain substitutes the call's receiver for a nil or failed result ("+form+")")
			} else {
				rt.Assert(c04IsOut(a.Elems[i], want[i]), "each result is the call's result on that element ("+form+")")
			}
		}
	}
	check(prop, "property call")
	check(lit, "literal call")
	check(vr, "variable call")
	rt.Assert(c04Same(prop, lit) && c04Same(prop, vr), "property call, literal call and variable call must agree")
}

var c04ReduceChains = []string{"$", "=$", "~$"}

// H_C04_reduce: reduce chains over n = Param(0) object elements from an initial accumulator.
func H_C04_reduce() {
	n, ci := rt.Param(0), rt.Param(1)
	chain := c04ReduceChains[ci]
	h := NewH()
	c04Setup(h, rt.Param(2) == 1)
	elems := make([]c04Elem, n)
	names := ""
	for i := range elems {
		elems[i] = c04MakeElem(h, fmt.Sprintf("e%d", i), false)
		if i > 0 {
			names += ", "
		}
		names += fmt.Sprintf("e%d", i)
	}
	a0 := rt.Int64()
	rt.Assume(a0 > -1000 && a0 < 1000)
	h.Set("x_", object.NewPanInt(a0))
	h.Eval(`a0 := P.bear({v: x_}); xs := [` + names + `]; g := {|acc, e| acc.comb(e, 10)}`)
	prop := h.EvalNoPanic(`xs` + chain + `(a0)comb(10)`)
	lit := h.EvalNoPanic(`xs` + chain + `(a0){|acc, e| acc.comb(e, 10)}`)
	vr := h.EvalNoPanic(`xs` + chain + `(a0)^g`)
	rt.Note(`xs` + chain + `(a0)comb(10)`)

	// reference: fold left; acc is an int payload, or nil (after a nil result)
	acc, accNil := a0, false
	out := 0 // 0 value, 2 ValueErr, 3 NoPropErr
	for _, e := range elems {
		var o c04Out
		switch {
		case accNil:
			o = c04Out{kind: 3} // nil.comb is not defined
		case e.x < 0:
			o = c04Out{kind: 2}
		case e.x == 0:
			o = c04Out{kind: 1}
		default:
			o = c04Out{kind: 0, val: acc + e.x + 10}
		}
		if chain == "~$" {
			if o.kind == 0 {
				acc = o.val
			}
			continue // nil or failure: keep the accumulator
		}
		if o.kind >= 2 {
			out = o.kind
			break
		}
		if o.kind == 1 {
			accNil = true
		} else {
			acc = o.val
		}
	}
	check := func(res object.PanObject, form string) {
		switch {
		case out == 2:
			rt.Assert(isErrKind(res, object.ValueErr), "a failing call aborts the reduce chain with its error ("+form+")")
		case out == 3:
			rt.Assert(isErrKind(res, object.NoPropErr), "a failing call aborts the reduce chain with its error ("+form+")")
		case accNil:
			rt.Assert(isNilLike(res), "the reduce chain returns the last accumulator ("+form+")")
		default:
			o, ok := res.(*object.PanObj)
			rt.Assert(ok, "the reduce chain folds left from the chain argument ("+form+")")
			if ok {
				v, has := (*o.Pairs)[object.GetSymHash("v")]
				rt.Assert(has && isInt(v.Value, acc), "the reduce chain folds left from the chain argument ("+form+")")
			}
		}
	}
	check(prop, "property call")
	check(lit, "literal call")
	check(vr, "variable call")
	rt.Assert(c04Same(prop, lit) && c04Same(prop, vr), "property call, literal call and variable call must agree")
}

var c04ScalarChains = []string{".", "=.", "~.", "&."}

// H_C04_scalar: scalar chains on a single receiver (object with symbolic payload, or nil).
func H_C04_scalar() {
	chain := c04ScalarChains[rt.Param(0)]
	h := NewH()
	c04Setup(h, rt.Param(1) == 1)
	e := c04MakeElem(h, "e0", true)
	h.Eval(`f := {|e| e.act(10)}`)
	prop := h.EvalNoPanic(`e0` + chain + `act(10)`)
	lit := h.EvalNoPanic(`e0` + chain + `{|e| e.act(10)}`)
	vr := h.EvalNoPanic(`e0` + chain + `^f`)
	rt.Note(`e0` + chain + `act(10)`)
	o := e.act(10)
	check := func(res object.PanObject, form string) {
		switch chain {
		case ".", "=.":
			rt.Assert(c04IsOut(res, o), "a scalar chain gives the call's result ("+form+")")
		case "~.":
			if o.kind >= 1 {
				rt.Assert(res == e.obj, "the thoughtful chain substitutes the receiver for a nil or failed result ("+form+")")
			} else {
				rt.Assert(c04IsOut(res, o), "the thoughtful chain keeps a non-nil result ("+form+")")
			}
		case "&.":
			if e.isNil {
				rt.Assert(isNilLike(res), "the lonely chain skips the call for a nil receiver ("+form+")")
			} else {
				rt.Assert(c04IsOut(res, o), "the lonely chain calls a non-nil receiver ("+form+")")
			}
		}
	}
	check(prop, "property call")
	check(lit, "literal call")
	check(vr, "variable call")
	rt.Assert(c04Same(prop, lit) && c04Same(prop, vr), "property call, literal call and variable call must agree")
}

var c04Receivers = []string{`3`, `"ab"`, `(1:4)`, `{a: 1, b: 2}`, `%{'a: 1, 'b: 2}`, `<{|n| yield n if n < 3; recur(n + 1)}>.new(0)`, `[1, 2]`}

// H_C04_recv: the three call forms agree for every built-in receiver kind (int, str, range,
// obj, map, iterator, arr) in list and reduce context, with the total property S.
// H_C04_digest: the three call forms agree when the list chain has a chain argument of any
// container kind (the collected results are digested into it), also when NOTHING is
// collected: empty receivers, receivers whose results are all nil or all dropped.
var c04DigestRecv = []string{`[]`, `[nil, nil]`, `[{a: nil}]`, `[{a: ["k", 1]}]`, `[{a: ["k", 1]}, nil, {a: nil}]`, `0`, `""`, `{}`}
var c04DigestArg = []string{`({})`, `(%{})`, `([])`, `({c: 6})`, `(%{'c: 6})`, `([7])`}

func H_C04_digest() {
	h := NewH()
	recv := c04DigestRecv[rt.Choice(len(c04DigestRecv))]
	arg := c04DigestArg[rt.Choice(len(c04DigestArg))]
	chain := []string{"@", "=@", "~@", "&@"}[rt.Choice(4)]
	h.Eval(`r := ` + recv + `; f := {|e| e.a}`)
	rt.Note(`r` + chain + arg + `a   with r := ` + recv)
	prop := h.EvalNoPanic(`r` + chain + arg + `a`)
	lit := h.EvalNoPanic(`r` + chain + arg + `{|e| e.a}`)
	vr := h.EvalNoPanic(`r` + chain + arg + `^f`)
	rt.Assert(prop.Type() == lit.Type() && prop.Inspect() == lit.Inspect(), "property call and literal call must agree on the digest into the chain argument")
	rt.Assert(vr.Type() == lit.Type() && vr.Inspect() == lit.Inspect(), "variable call and literal call must agree on the digest into the chain argument")
}

func H_C04_recv() {
	recv := c04Receivers[rt.Param(0)]
	h := NewH()
	h.Eval(`r := ` + recv + `; f := {|e| e.S}; g := {|acc, e| acc.S + e.S}`)
	for _, chain := range []string{"@", "=@", "~@", "&@"} {
		prop := h.EvalNoPanic(`r` + chain + `S`)
		lit := h.EvalNoPanic(`r` + chain + `{|e| e.S}`)
		vr := h.EvalNoPanic(`r` + chain + `^f`)
		_, isErr := prop.(*object.PanErr)
		rt.Assert(!isErr, "a list chain over a built-in receiver must not raise")
		rt.Assert(prop.Inspect() == lit.Inspect() && prop.Inspect() == vr.Inspect(), "property call, literal call and variable call must agree for every receiver kind")
	}
	lit := h.EvalNoPanic(`r$("")` + `{|acc, e| acc.S + e.S}`)
	vr := h.EvalNoPanic(`r$("")^g`)
	_, isErr := lit.(*object.PanErr)
	rt.Assert(!isErr, "a reduce chain over a built-in receiver must not raise")
	rt.Assert(lit.Inspect() == vr.Inspect(), "literal call and variable call must agree in a reduce chain")
}
