package zzverifw

// C05 — property resolution follows the prototype chain, then _missing, then NoPropErr.
// Real code under test: FindPropAlongProtos/FindPropOwner/findProp, evalProp,
// findPropMiddleware, evalCall/evalFuncMethodCall, findElemInObj, BaseObj#bear/proto,
// Obj#which/keys, native Obj.pangaea (bro, ancestors, kindOf?).

import (
	"fmt"
	"strings"

	"github.com/Syuparn/pangaea/object"
	rt "github.com/Syuparn/pangaea/zzverifrt"
)

func init() { rt.Register("H_C05_forest", H_C05_forest) }

var c05Names = []string{"x", "y"}

// c05NameSets: Param(3) selects the names that may be defined: one public name, two public
// names, or a public and a private (underscore) name.
var c05NameSets = map[int][]string{1: {"x"}, 2: {"x", "y"}, 3: {"x", "_y"}}

// kinds of a property: 0 absent, 1 plain value, 2 function, 3 method
func c05Tag(obj, name, kind int) int64 { return int64(1000*(obj+1) + 100*name + kind) }

func c05Literal(i int, kinds []int, miss bool, c05Names []string) string {
	parts := []string{fmt.Sprintf("id: %d", i)}
	for n, k := range kinds {
		t := c05Tag(i, n, k)
		switch k {
		case 1:
			parts = append(parts, fmt.Sprintf("%s: %d", c05Names[n], t))
		case 2:
			parts = append(parts, fmt.Sprintf("%s: {|r, a| [%d, r, a]}", c05Names[n], t))
		case 3:
			parts = append(parts, fmt.Sprintf("%s: m{|a| [%d, self, a]}", c05Names[n], t))
		}
	}
	if miss {
		parts = append(parts, fmt.Sprintf("_missing: m{|name, a| [%d, self, name, a]}", 9000+i))
	}
	return "{" + strings.Join(parts, ", ") + "}"
}

// H_C05_forest: N = Param(0) objects; Param(1) = number of property kinds explored per name
// (4 = absent/value/function/method, 3 = without function); Param(2) >= 0 fixes the
// first object's configuration (shard).
func H_C05_forest() {
	N, nk := rt.Param(0), rt.Param(1)
	names := c05NameSets[rt.Param(3)]
	c05Names := append(append([]string{}, names...), "y")[:2] // (kinds of an unused second name stay 0)
	h := NewH()
	rootKind := 0
	if rt.Param(4) == 1 {
		rootKind = 1 + rt.Choice(3)
	}
	parent := make([]int, N) // -1 = Obj
	kinds := make([][]int, N)
	miss := make([]bool, N)
	objs := make([]object.PanObject, N)
	for i := 0; i < N; i++ {
		kinds[i] = make([]int, len(c05Names))
		if i == 0 && rt.Param(2) >= 0 {
			c := rt.Param(2)
			if len(names) == 2 {
				kinds[0][0], kinds[0][1], miss[0] = c%nk, (c/nk)%nk, (c/(nk*nk))%2 == 1
			} else {
				kinds[0][0], miss[0] = c%nk, (c/nk)%2 == 1
			}
		} else {
			for n := range names {
				kinds[i][n] = rt.Choice(nk)
			}
			miss[i] = rt.Bool()
		}
		lit := c05Literal(i, kinds[i], miss[i], c05Names)
		var src string
		if i == 0 {
			parent[0] = -1
			src = fmt.Sprintf("o0 := %s", lit)
			if rootKind > 0 {
				// the root is a child of a concrete str / arr / int value: resolution starts at the
				// receiver all the same (own and shadowing properties first)
				src = fmt.Sprintf("o0 := %s.bear(%s)", []string{"", `"abc"`, `[1, 2]`, `3`}[rootKind], lit)
			}
		} else {
			p := rt.Choice(i)
			if rt.Bool() {
				parent[i] = p
				src = fmt.Sprintf("o%d := o%d.bear(%s)", i, p, lit)
			} else {
				parent[i] = parent[p]
				src = fmt.Sprintf("o%d := o%d.bro(%s)", i, p, lit)
			}
		}
		rt.Note(src)
		objs[i] = h.EvalNoPanic(src)
		_, ok := objs[i].(*object.PanObj)
		rt.Assert(ok || rootKind > 0, "bear / bro / literal must build an object")
		_, isErr := objs[i].(*object.PanErr)
		rt.Assert(!isErr, "bear / bro / literal must build an object")
	}
	// using the objects as ** expansions of calls (a function call and a property call) is not an
	// operation on the forest: every lookup below must still follow the model
	h.EvalNoPanic(`nop := {|| \_}; nop(**o0, **o1); o1.id(**o1, **o0); nop(**o1, **{zq: 1})`)
	chain := func(j int) []int {
		var c []int
		for k := j; k >= 0; k = parent[k] {
			c = append(c, k)
		}
		return c
	}
	for j := 0; j < N; j++ {
		ch := chain(j)
		// proto
		pr := h.EvalNoPanic(fmt.Sprintf("o%d.proto", j))
		if parent[j] >= 0 {
			rt.Assert(pr == objs[parent[j]], "proto must be the object the value was born from (bear) or its sibling's proto (bro)")
		} else if rootKind > 0 {
			rt.Assert(pr.Type() == []object.PanObjType{"", object.StrType, object.ArrType, object.IntType}[rootKind], "proto must be the value the object was born from")
		} else {
			rt.Assert(pr == object.BuiltInObjObj, "an object literal's proto must be Obj")
		}
		// ancestors
		an := h.EvalNoPanic(fmt.Sprintf("o%d.ancestors", j))
		anArr, ok := an.(*object.PanArr)
		rt.Assert(ok && (rootKind > 0 || len(anArr.Elems) == len(ch)-1+2), "ancestors must list the whole proto chain up to BaseObj")
		if !ok {
			return
		}
		for k := 1; k < len(ch); k++ {
			rt.Assert(anArr.Elems[k-1] == objs[ch[k]], "ancestors must follow the search order")
		}
		// kindOf?
		for k := 0; k < N; k++ {
			in := false
			for _, c := range ch {
				if c == k {
					in = true
				}
			}
			r := h.EvalNoPanic(fmt.Sprintf("o%d.kindOf?(o%d)", j, k))
			// (kindOf? compares with ==; == between children of a non-object value is outside the
			// stated domains of C05 and C18, so it is asserted for object-literal forests only)
			rt.Assert(rootKind > 0 || ((r == object.BuiltInTrue) == in && (r == object.BuiltInTrue || r == object.BuiltInFalse)), "kindOf? must agree with the proto chain")
		}
		// keys: own public names, sorted
		want := []string{"id"}
		for n, name := range c05Names {
			if kinds[j][n] != 0 && !strings.HasPrefix(name, "_") {
				want = append(want, name)
			}
		}
		ks := h.EvalNoPanic(fmt.Sprintf("o%d.keys", j))
		ka, ok := ks.(*object.PanArr)
		rt.Assert(ok && len(ka.Elems) == len(want), "keys must list exactly the receiver's own public names")
		for i, w := range want {
			s, ok := ka.Elems[i].(*object.PanStr)
			rt.Assert(ok && s.Value == w, "keys must be the own public names in sorted order")
		}
		// lookups: the names of the set and the never-defined z and _w (private names resolve
		// exactly like public ones: chain, then _missing, then NoPropErr)
		for n, name := range append(append([]string{}, names...), "z", "_w") {
			d := -1 // first definer
			if n < len(names) {
				for _, c := range ch {
					if kinds[c][n] != 0 {
						d = c
						break
					}
				}
			}
			m := -1 // first _missing definer
			for _, c := range ch {
				if miss[c] {
					m = c
					break
				}
			}
			call := h.EvalNoPanic(fmt.Sprintf("o%d.%s(7)", j, name))
			idx := h.EvalNoPanic(fmt.Sprintf("o%d['%s]", j, name))
			wh := h.EvalNoPanic(fmt.Sprintf("o%d.which('%s)", j, name))
			switch {
			case d >= 0:
				tag := c05Tag(d, n, kinds[d][n])
				raw := (*objs[d].(*object.PanObj).Pairs)[object.GetSymHash(name)].Value
				rt.Assert(idx == raw, "indexing by symbol must give the property found first along the chain")
				rt.Assert(wh == objs[d], "which must name the first object along the chain that has the property")
				if kinds[d][n] == 1 {
					rt.Assert(isInt(call, tag), "a non-callable property is returned as is (arguments ignored)")
				} else {
					a, ok := call.(*object.PanArr)
					rt.Assert(ok && len(a.Elems) == 3 && isInt(a.Elems[0], tag) && a.Elems[1] == objs[j] && isInt(a.Elems[2], 7), "a callable property found first along the chain is invoked with the receiver first")
				}
			case m >= 0:
				a, ok := call.(*object.PanArr)
				rt.Assert(ok && len(a.Elems) == 4 && isInt(a.Elems[0], int64(9000+m)) && a.Elems[1] == objs[j], "the first _missing along the chain is called with the receiver")
				if ok && len(a.Elems) == 4 {
					s, isStr := a.Elems[2].(*object.PanStr)
					rt.Assert(isStr && s.Value == name && isInt(a.Elems[3], 7), "_missing receives the property name and the arguments")
				}
				rt.Assert(isNil(idx) && isNil(wh), "indexing and which find nothing for an absent property")
			default:
				rt.Assert(isErrKind(call, object.NoPropErr), "an absent property without _missing raises NoPropErr")
				rt.Assert(isNil(idx) && isNil(wh), "indexing and which find nothing for an absent property")
			}
		}
	}
}
