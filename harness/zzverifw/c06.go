package zzverifw

// C06 — values are immutable: no operation changes an existing value.
// Real code under test: every built-in and native property reachable from the prototype
// chains of arr / str / obj / map / range / int / float / func / child objects, called on
// live values whose structure is fingerprinted before and after.

import (
	"fmt"
	"sort"

	"github.com/Syuparn/pangaea/object"
	rt "github.com/Syuparn/pangaea/zzverifrt"
)

func init() {
	rt.Register("H_C06_step", H_C06_step)
	rt.Register("H_C06_pair", H_C06_pair)
	rt.Register("H_C06_constructs", H_C06_constructs)
	rt.Register("H_C06_capture", H_C06_capture)
}

// call-site and literal machinery that handles existing values: unpacking, expansion,
// merging, interpolation, chains, digest
var c06Constructs = []string{
	`f2(**o, **o2)`, `f2(**o2, **o)`, `f2(y: 1, **o, **o2)`, `f2(y: 1, **o)`, `f2(**o, **o)`,
	`{**o, **o2}`, `{**o2, **o}`, `{z: 1, **o}`, `%{**m, **m2}`, `%{**m2, **m}`, `%{**o, **m}`,
	`[*a, *aa]`, `[*aa, *a]`, `f3(*a)`, `f3(*a, *a)`, `f3(*aa, *a)`,
	`o.bear(o2)`, `o2.bro(o)`, `ch.bear(o)`, `o.patch(y: 1)`,
	`a + aa`, `aa + a`, `a + a`, `"#{s}#{a}#{o}"`,
	`a@{|x| x}`, `o@{|kv| kv}`, `m@{|kv| kv}`, `a$(aa){|acc, x| acc + [x]}`, `a$(a){|acc, x| acc + [x]}`,
	`o.digest([["k", 1]])`, `a.digest([9])`, `m.digest([[1, 2]])`,
	`o2.{|x| \_}`, `{|| \_}(**o)`, `{|| \0}(*a)`, `a.{|x| [*x, *x]}`,
	`rd.A + a`, `[*rd]`, `a[rd]`, `s[rd]`, `rd@{|x| x}`, `ad@{|x| x}`, `[*ad, *rd]`, `rd._iter.next`, `ad.sum`, `rd == r`,
	`keep := a$([]){|p| p[0] + [p]}; [keep[0][1], keep[1][1], keep[2][1]]`, `fs := a$([]){|p| p[0] + [{|| p[1]}]}; fs@{|f| f()}`, `ks := a~$([]){|p| p[0] + [p]}; ks[0][1]`, `zs := a@{|x| [x]}; zs[0]`,
	`o == o2`, `m == m2`, `a == aa`, `o.keys + o2.keys`, `r.A + a`, `s + s`, `s * 2`, `a * 2`,
}

// H_C06_constructs: two constructs in sequence (solver choices; the first is sharded by
// the job) over the pool; every live value is fingerprinted before and compared after each.
func H_C06_constructs() {
	h := NewH()
	p := c06World(h, rt.Param(2) == 1)
	p.add("o2", h.Eval(`{y: x2, p: 5}`))
	p.add("m2", h.Eval(`%{x1: 9, 'k: [x3]}`))
	h.Eval(`f2 := {|p: 0, y: 0| [p, y]}; f3 := {|u, v, w| [u, v, w]}`)
	lo := len(c06Constructs) * rt.Param(0) / rt.Param(1)
	hi := len(c06Constructs) * (rt.Param(0) + 1) / rt.Param(1)
	c1 := c06Constructs[lo+rt.Choice(hi-lo)]
	r1 := h.EvalNoPanic(c1)
	p.unchanged("no call, literal, unpacking or chain may change an existing value")
	if _, isErr := r1.(*object.PanErr); !isErr {
		p.add("r1", r1)
	} else {
		h.Set("r1", object.BuiltInNil)
	}
	c2 := c06Constructs[rt.Choice(len(c06Constructs))]
	rt.Note(c1 + " ; " + c2)
	h.EvalNoPanic(c2)
	p.unchanged("no call, literal, unpacking or chain may change an existing value")
}

// snap is a deep structural fingerprint of a value (element / pair / bound identities by
// Go pointer, scalar payloads by value, prototype by pointer).
type snap struct {
	obj  object.PanObject
	typ  object.PanObjType
	i    int64
	f    float64
	s    string
	kids []*snap
	keys []string
	ptrs []object.PanObject
}

func takeSnap(o object.PanObject, depth int) *snap {
	n := &snap{obj: o}
	if o == nil {
		return n
	}
	n.typ = o.Type()
	n.ptrs = append(n.ptrs, o.Proto())
	if depth > 3 {
		return n
	}
	switch v := o.(type) {
	case *object.PanInt:
		n.i = v.Value
	case *object.PanFloat:
		n.f = v.Value
	case *object.PanStr:
		n.s = v.Value
	case *object.PanArr:
		for _, e := range v.Elems {
			n.ptrs = append(n.ptrs, e)
			n.kids = append(n.kids, takeSnap(e, depth+1))
		}
	case *object.PanRange:
		for _, e := range []object.PanObject{v.Start, v.Stop, v.Step} {
			n.ptrs = append(n.ptrs, e)
			n.kids = append(n.kids, takeSnap(e, depth+1))
		}
	case *object.PanObj:
		if v.Pairs != nil && depth <= 2 {
			var ks []string
			byName := map[string]object.Pair{}
			for _, p := range *v.Pairs {
				k := p.Key.(*object.PanStr).Value
				ks = append(ks, k)
				byName[k] = p
			}
			sort.Strings(ks)
			n.keys = ks
			for _, k := range ks {
				n.ptrs = append(n.ptrs, byName[k].Value)
				// prototypes' own function values are not descended into
				if _, isObj := byName[k].Value.(*object.PanObj); !isObj || depth < 2 {
					n.kids = append(n.kids, takeSnap(byName[k].Value, depth+1))
				} else {
					n.kids = append(n.kids, &snap{obj: byName[k].Value})
				}
			}
			if v.Keys != nil {
				n.i = int64(len(*v.Keys))
			}
		}
	case *object.PanMap:
		for _, hk := range *v.HashKeys {
			p := (*v.Pairs)[hk]
			n.ptrs = append(n.ptrs, p.Key, p.Value)
			n.kids = append(n.kids, takeSnap(p.Key, depth+1), takeSnap(p.Value, depth+1))
		}
		for _, p := range *v.NonHashablePairs {
			n.ptrs = append(n.ptrs, p.Key, p.Value)
			n.kids = append(n.kids, takeSnap(p.Key, depth+1), takeSnap(p.Value, depth+1))
		}
		n.i = int64(len(*v.Pairs))
	case *object.PanFunc:
		// a function value's own scope is part of the value: calling it must not leave anything there
		if v.Env != nil {
			n.i = int64(len(v.Env.Store))
		}
	case *object.PanErrWrapper:
		n.s = string(v.ErrKind) + ": " + v.Msg
	case *object.PanErr:
		n.s = string(v.ErrKind) + ": " + v.Msg + "\x00" + v.StackTrace
	}
	return n
}

func (n *snap) same() bool {
	m := takeSnapShallow(n)
	if n.typ != m.typ || n.i != m.i || !(n.f == m.f || (n.f != n.f && m.f != m.f)) || n.s != m.s {
		return false
	}
	if len(n.ptrs) != len(m.ptrs) || len(n.keys) != len(m.keys) || len(n.kids) != len(m.kids) {
		return false
	}
	for i := range n.ptrs {
		if n.ptrs[i] != m.ptrs[i] {
			return false
		}
	}
	for i := range n.keys {
		if n.keys[i] != m.keys[i] {
			return false
		}
	}
	for _, k := range n.kids {
		if k.typ != "" && !k.same() {
			return false
		}
	}
	return true
}

// takeSnapShallow re-reads the object's own level (children are compared recursively).
func takeSnapShallow(n *snap) *snap {
	if n.obj == nil {
		return &snap{}
	}
	m := takeSnap(n.obj, 3) // depth 3: own level only, children as leaves
	if len(n.kids) > 0 && len(m.kids) == 0 {
		// the original was taken at a shallower depth: re-take with children
		m = takeSnap(n.obj, 0)
	}
	return m
}

type c06Pool struct {
	h     *H
	names []string
	snaps []*snap
}

func (p *c06Pool) add(name string, v object.PanObject) {
	p.h.Set(name, v)
	p.names = append(p.names, name)
	p.snaps = append(p.snaps, takeSnap(v, 0))
}

func (p *c06Pool) unchanged(msg string) {
	for _, s := range p.snaps {
		rt.Assert(s.same(), msg)
	}
}

// c06World builds the pool of live values (payloads symbolic).
func c06World(h *H, symbolic bool) *c06Pool {
	p := &c06Pool{h: h}
	x1, x2, x3 := int64(7), int64(8), int64(9)
	if symbolic {
		x1, x2, x3 = rt.Int64(), rt.Int64(), rt.Int64()
		// payloads are symbolic but kept off the cached 0 / 1 singletons (no 3-way fork per value)
		rt.Assume(x1 > 1 && x1 < 100 && x2 > 1 && x2 < 100 && x3 > 1 && x3 < 100)
	}
	h.Set("x1", object.NewPanInt(x1))
	h.Set("x2", object.NewPanInt(x2))
	h.Set("x3", object.NewPanInt(x3))
	for _, d := range [][2]string{
		{"a", `[x1, x2, x3]`}, // built by evalArr with spare capacity
		{"s", `"abc"`},
		{"o", `{p: x1, q: [x2]}`},
		{"m", `%{x1: 1, [x2]: 2}`},
		{"r", `(x1:x2)`},
		{"i", `x3`},
		{"fl", `1.5`},
		{"fn", `{|q| q}`},
		{"ch", `{p: x1}.bear({z: [x3]})`},
		{"aa", `[[x1], [x2]]`},
		// values whose components are descendants of built-in values (a built-in that
		// normalises such a component must build a new value, not write into this one)
		{"rd", `(x1:x2:2.bear({name: "two"}))`},
		{"ad", `[3.bear({k: 1}), "s".bear({t: 1}), [x1].bear({u: 1})]`},
	} {
		p.add(d[0], h.Eval(d[1]))
	}
	return p
}

// propNames lists every property name reachable from v's prototype chain.
func propNames(v object.PanObject) []string {
	seen := map[string]bool{}
	for o := v; o != nil; o = o.Proto() {
		if po, ok := o.(*object.PanObj); ok && po.Pairs != nil {
			for _, pr := range *po.Pairs {
				seen[pr.Key.(*object.PanStr).Value] = true
			}
		}
	}
	// I/O and process control are not operations on values
	for _, skip := range []string{"p", "puts", "print", "import", "invite!", "exit", "assert", "assertEq", "assertRaises", "eval", "evalEnv", "decJSON", "S", "repr", "tap", "try", "then"} {
		delete(seen, skip)
	}
	var ns []string
	for n := range seen {
		ns = append(ns, n)
	}
	sort.Strings(ns)
	return ns
}

var c06Args = []string{"", "a", "i", "s", "fn", "o", "m", "r", "rd", "ad"}

// H_C06_step: one operation: receiver = pool value Param(0); the property is a solver
// choice among EVERY name reachable from its prototype chain; the argument a solver
// choice from the pool. Afterwards every live value must be unchanged.
func H_C06_step() {
	h := NewH()
	p := c06World(h, false) // the operation (property x argument) is the solver's choice; payloads are concrete here
	recv := p.names[rt.Param(0)]
	names := propNames(h.Eval(recv))
	lo, hi := 0, len(names)
	if rt.Param(1) >= 0 { // shard the name list
		lo = len(names) * rt.Param(1) / rt.Param(2)
		hi = len(names) * (rt.Param(1) + 1) / rt.Param(2)
	}
	if hi <= lo {
		return
	}
	name := names[lo+rt.Choice(hi-lo)]
	arg := c06Args[rt.Choice(len(c06Args))]
	h.Set("nm", object.NewPanStr(name))
	src := fmt.Sprintf("Obj.callProp(%s, nm)", recv)
	if arg != "" {
		src = fmt.Sprintf("Obj.callProp(%s, nm, %s)", recv, arg)
	}
	rt.Note(recv + "." + name + "(" + arg + ")")
	res := h.EvalNoPanic(src)
	p.unchanged("no operation may change an existing value")
	_ = res
}

// H_C06_pair: two operations on arrays sharing a receiver (a, or the first result): both
// properties are solver choices among every Arr property; the first result is fingerprinted
// and must survive the second operation.
func H_C06_pair() {
	h := NewH()
	p := c06World(h, rt.Param(2) == 1)
	names := propNames(h.Eval(`a`))
	lo := len(names) * rt.Param(0) / rt.Param(1)
	hi := len(names) * (rt.Param(0) + 1) / rt.Param(1)
	if hi <= lo {
		return
	}
	n1 := names[lo+rt.Choice(hi-lo)]
	h.Set("nm", object.NewPanStr(n1))
	args := []string{"[7]", "2", "fn"}
	a1 := args[rt.Choice(len(args))]
	r1 := h.EvalNoPanic(fmt.Sprintf("Obj.callProp(a, nm, %s)", a1))
	if _, isErr := r1.(*object.PanErr); isErr {
		return
	}
	p.add("r1", r1)
	p.unchanged("no operation may change an existing value")
	// second operation: any Arr property again, on the original receiver or on the result
	recv2 := []string{"a", "r1"}[rt.Choice(2)]
	n2 := []string{"+", "*", "append", "prepend", "zip", "chain", "map", "rev"}[rt.Choice(8)]
	h.Set("nm2", object.NewPanStr(n2))
	a2 := []string{"[8]", "fn"}[rt.Choice(2)]
	rt.Note(fmt.Sprintf("r1 := a.%s(%s); %s.%s(%s)", n1, a1, recv2, n2, a2))
	h.EvalNoPanic(fmt.Sprintf("Obj.callProp(%s, nm2, %s)", recv2, a2))
	p.unchanged("a value derived earlier must not change when another value is derived from the same receiver")
}

// c06Captures: a value handed to a chain step (the element, the [acc, elem] pair, the
// [key, value] pair) and kept by the step - stored in the result or captured by a closure -
// must still hold what it held, after all later steps have run.  Each program reads the
// kept values back at the end; the expected result is [x1, x2, x3] (payloads symbolic).
var c06Captures = []string{
	`a$([]){|p| p[0] + [p]}@{|q| q[1]}`,
	`a$([]){|p| p[0] + [{|| p[1]}]}@{|f| f()}`,
	`a~$([]){|p| p[0] + [p]}@{|q| q[1]}`,
	`a~$([]){|p| p[0] + [{|| p[1]}]}@{|f| f()}`,
	`g := {|p| p[0] + [p]}; a$([])^g@{|q| q[1]}`,
	`a@{|x| [x]}@{|q| q[0]}`,
	`a@{|x| {|| x}}@{|f| f()}`,
	`a=@{|x| [x]}@{|q| q[0]}`,
	`{k1: x1, k2: x2, k3: x3}@{|kv| kv}@{|q| q[1]}`,
	`%{1: x1, 2: x2, 3: x3}@{|kv| kv}@{|q| q[1]}`,
	`%{1: x1, 2: x2, 3: x3}$([]){|p| p[0] + [p]}@{|q| q[1][1]}`,
	`it := a._iter; [[it.next], [it.next], [it.next]]@{|q| q[0]}`,
	`a$([]){|acc, x| acc + [[acc.len, x]]}@{|q| q[1]}`,
	// the keyword-argument object of one chain call, kept by an earlier step, is not changed when a
	// later step binds its own default keyword parameters
	`keep := {|x| \_}; other := {|x, opt: 1| x}; r := [keep, other]@call(0, a: x1); ([r[0].a, x2, x3] if r[0].keys == ["a"] else r[0].keys)`,
	`keepm := {go: m{|| \_}}; otherm := {go: m{|opt: 1| opt}}; r := [keepm, otherm]@go(a: x1); ([r[0].a, x2, x3] if r[0].keys == ["a"] else r[0].keys)`,
}

func H_C06_capture() {
	h := NewH()
	p := c06World(h, true)
	src := c06Captures[rt.Param(0)]
	rt.Note(src)
	res := h.EvalNoPanic(src)
	x := func(n string) int64 { return h.EvalNoPanic(n).(*object.PanInt).Value }
	rt.Assert(arrOfInts(res, x("x1"), x("x2"), x("x3")), "a value kept by a chain step still holds what it held when the step received it")
	p.unchanged("no chain may change an existing value")
}
