package zzverifw

// C07 — raised errors stop evaluation and reach the nearest handler (fail-stop).
// Real code under test: every evaluator construct that evaluates sub-expressions
// (literals, infix, calls, args/kwargs, chains, if, embedded strings, statement lists).

import (
	"fmt"
	"strings"

	"github.com/Syuparn/pangaea/object"
	rt "github.com/Syuparn/pangaea/zzverifrt"
)

func init() { rt.Register("H_C07_inject", H_C07_inject) }

type c07T struct {
	name  string
	setup string
	src   string
	m     int   // number of step slots
	after int64 // a mark that must not appear when some slot fails (0 = none)
	try   bool  // the error is delivered to a handler instead of ending the program
}

var c07Templates = []c07T{
	{"array literal", "", `[step(1), step(2), step(3)]`, 3, 0, false},
	{"object literal values", "", `{a: step(1), b: step(2), c: step(3)}`, 3, 0, false},
	{"map literal keys and values", "", `%{step(1): step(2), step(3): step(4)}`, 4, 0, false},
	{"range bounds", "", `(step(1):step(2):step(3))`, 3, 0, false},
	{"infix operands", "", `step(1) + step(2) * step(3)`, 3, 0, false},
	{"call arguments and keyword arguments", `f := {|a, b, k: 0| mark(9)}`, `f(step(1), step(2), k: step(3))`, 3, 9, false},
	{"receiver and arguments of a property call", `o := {bar: m{|x, y| mark(9)}}; oo := {|i| o}`, `oo(step(1)).bar(step(2), step(3))`, 3, 9, false},
	{"if condition", "", `mark(8) if step(1) else mark(9)`, 1, 0, false},
	{"embedded string parts", "", `"a#{step(1)}b#{step(2)}c#{step(3)}"`, 3, 0, false},
	{"list chain, literal call", "", `[1, 2, 3]@{|x| step(x)}`, 3, 0, false},
	{"strict list chain, literal call", "", `[1, 2, 3]=@{|x| step(x)}`, 3, 0, false},
	{"reduce chain, literal call", "", `[1, 2, 3]$(0){|acc, x| acc + step(x)}`, 3, 0, false},
	{"list chain, property call", `os := [1, 2, 3]@{|i| {i: i, go: m{|| step(self.i)}}}`, `os@go`, 3, 0, false},
	{"strict list chain, property call", `os := [1, 2, 3]@{|i| {i: i, go: m{|| step(self.i)}}}`, `os=@go`, 3, 0, false},
	{"statement list", "", `step(1); step(2); step(3); mark(9)`, 3, 9, false},
	{"callee expression", `gf := {|i| {|j| mark(9)}}`, `gf(step(1))(step(2))`, 2, 9, false},
	{"chain argument", "", `[step(1)]@([step(2)]){|x| step(3)}`, 3, 0, false},
	{"function body", `g := {|| step(1); step(2); mark(9)}`, `g(); mark(10)`, 2, 9, false},
	{"assignment right-hand side", "", `x := step(1); y := step(2); mark(9)`, 2, 9, false},
	{"unpacking in array and call", `f := {|a, b| mark(9)}`, `f(*[step(1), step(2)])`, 2, 9, false},
	{"try step", "", `1.try.{|x| step(1) + step(2)}.err`, 2, 0, true},
	{"thoughtful chain", "", `7~.{|x| step(1) + step(2)}`, 2, 0, true},
	{"lonely chain receiver", "", `step(1)&.S`, 1, 0, false},
	{"nested literals", "", `[[step(1)], {a: [step(2)]}, %{1: step(3)}]`, 3, 0, false},
	{"range in array", "", `[(1:step(1)), step(2)]`, 2, 0, false},
	{"statement after a yield in a function body", `yf := {|x| yield mark(7); step(1); mark(9)}`, `yf(0); mark(10)`, 1, 9, false},
	{"statement after a yield in an iterator body", `it := <{|n| yield mark(7); step(1); recur(n + 1)}>.new(0)`, `it.next; mark(9)`, 1, 9, false},
	{"statement after a guarded yield", `yg := {|x| yield mark(7) if true; step(1); step(2)}`, `yg(0)`, 2, 0, false},
	{"statement after a defer", `df := {|x| defer mark(7); step(1); mark(9)}`, `df(0); mark(10)`, 1, 9, false},
	{"second statement of a method body", `mo := {go: m{|| step(1); step(2); mark(9)}}`, `mo.go; mark(10)`, 2, 9, false},
	{"predicate of a native loop helper", "", `[1, 2, 3].doUntil {|x| step(x) == 5}.A`, 3, 0, false},
	// callbacks of the native Iterable methods, and native combinators consuming an iterator whose
	// element function raises ("native iterator: ..." = the slot runs inside the body of an
	// iterator that A is consuming)
	{"native map", "", `[1, 2, 3].map {|x| step(x)}`, 3, 0, false},
	{"native select", "", `[1, 2, 3].select {|x| step(x) > 0}`, 3, 0, false},
	{"native exclude", "", `[1, 2, 3].exclude {|x| step(x) > 5}`, 3, 0, false},
	{"native all?", "", `[1, 2, 3].all? {|x| step(x) > 0}`, 3, 0, false},
	{"native any?", "", `[1, 2, 3].any? {|x| step(x) > 5}`, 3, 0, false},
	{"native reduce", "", `[1, 2, 3].reduce({|acc, x| acc + step(x)}, init: 0)`, 3, 0, false},
	{"native keyBy", "", `[1, 2, 3].keyBy {|x| step(x)}`, 3, 0, false},
	{"native iterator: lazyMap", "", `[1, 2, 3].lazyMap {|x| step(x)}.A`, 3, 0, false},
	{"native iterator: lazyMap then append", "", `[1, 2, 3].lazyMap {|x| step(x)}.append(9).A`, 3, 0, false},
	{"native iterator: lazyMap then prepend", "", `[1, 2, 3].lazyMap {|x| step(x)}.prepend(9).A`, 3, 0, false},
	{"native iterator: lazyMap then chain", "", `[1, 2, 3].lazyMap {|x| step(x)}.chain([8, 9]).A`, 3, 0, false},
	{"native iterator: lazyMap then withI", "", `[1, 2, 3].lazyMap {|x| step(x)}.withI.A`, 3, 0, false},
	{"native iterator: lazyMap then zip", "", `[1, 2, 3].lazyMap {|x| step(x)}.zip([7, 8, 9]).A`, 3, 0, false},
	{"native iterator: acc", "", `[1, 2, 3].acc({|a, x| a + step(x)}, init: 0).A`, 3, 0, false},
	{"native iterator: while", "", `[1, 2, 3].while {|x| step(x) > 0}.A`, 3, 0, false},
	{"native iterator: until", "", `[1, 2, 3].until {|x| step(x) > 5}.A`, 3, 0, false},
}

// containsErr scans a result value for a *PanErr stored as element, key, bound or value.
func containsErr(o object.PanObject, depth int) bool {
	if depth > 4 || o == nil {
		return false
	}
	switch v := o.(type) {
	case *object.PanErr:
		return true
	case *object.PanArr:
		for _, e := range v.Elems {
			if containsErr(e, depth+1) {
				return true
			}
		}
	case *object.PanRange:
		return containsErr(v.Start, depth+1) || containsErr(v.Stop, depth+1) || containsErr(v.Step, depth+1)
	case *object.PanObj:
		if v.Pairs != nil {
			for _, p := range *v.Pairs {
				if containsErr(p.Value, depth+1) {
					return true
				}
			}
		}
	case *object.PanMap:
		if v.Pairs != nil {
			for _, p := range *v.Pairs {
				if containsErr(p.Key, depth+1) || containsErr(p.Value, depth+1) {
					return true
				}
			}
		}
		if v.NonHashablePairs != nil {
			for _, p := range *v.NonHashablePairs {
				if containsErr(p.Key, depth+1) || containsErr(p.Value, depth+1) {
					return true
				}
			}
		}
	}
	return false
}

func H_C07_inject() {
	t := c07Templates[rt.Param(0)]
	h := NewH()
	kinds := []string{"ValueErr", "TypeErr", "ZeroDivisionErr", "StopIterErr", "NameErr", "NoPropErr"}
	h.Kind = kinds[rt.Choice(len(kinds))]
	// a StopIterErr raised inside the body of an iterator that a chain or A is consuming IS
	// the iterator protocol's end signal (C14: the consumer stops at the first StopIterErr),
	// so that error kind is outside the domain for the template whose slots run there
	if t.name == "predicate of a native loop helper" || strings.HasPrefix(t.name, "native iterator: ") {
		rt.Assume(h.Kind != "StopIterErr")
	}
	K := rt.Int64()
	rt.Assume(K >= 0 && K <= int64(t.m))
	h.K = K
	if t.setup != "" {
		h.K = 0
		h.Eval(t.setup)
		h.K = K
	}
	h.Reset()
	rt.Note(t.name + ": " + t.src)
	res := h.EvalNoPanic(t.src)

	rt.Note(fmt.Sprint("trace=", h.Trace, " result=", res.Type()))
	// every slot evaluated at most once
	count := make([]int, t.m+1)
	for _, x := range h.Trace {
		if x >= 1 && x <= int64(t.m) {
			count[x]++
		}
	}
	for i := 1; i <= t.m; i++ {
		rt.Assert(count[i] <= 1, "a sub-expression must not be evaluated twice")
	}
	if K == 0 {
		_, isErr := res.(*object.PanErr)
		rt.Assert(!isErr, "without a failure the construct must not raise")
		for i := 1; i <= t.m; i++ {
			rt.Assert(count[i] == 1, "without a failure every sub-expression is evaluated once")
		}
		return
	}
	// the failing slot was reached, and nothing was evaluated after it
	// (marks 7 are made by a pending defer or before the slots; pending defers may run after a raise)
	var slotsSeen []int64
	for _, x := range h.Trace {
		if x != 7 {
			slotsSeen = append(slotsSeen, x)
		}
	}
	n := len(slotsSeen)
	rt.Assert(n > 0 && slotsSeen[n-1] == K, "nothing may be evaluated after the sub-expression that raised")
	// slots are numbered in source order and evaluation follows source order (C08), so the
	// parts evaluated are exactly the ones written before the failing one: no later part of
	// the enclosing expression runs, whether after or before the raise in time
	var slots []int64
	for _, x := range slotsSeen {
		if x >= 1 && x <= int64(t.m) {
			slots = append(slots, x)
		}
	}
	rt.Assert(int64(len(slots)) == K, "exactly the parts written before the failing one are evaluated (no later part of the enclosing expression)")
	for i, x := range slots {
		rt.Assert(x == int64(i+1), "exactly the parts written before the failing one are evaluated (no later part of the enclosing expression)")
	}
	if t.after != 0 {
		for _, x := range h.Trace {
			rt.Assert(x != t.after, "the enclosing call/statement list must not continue after a raise")
		}
	}
	if t.try {
		if t.name == "try step" {
			e, ok := res.(*object.PanErrWrapper)
			rt.Assert(ok && string(e.ErrKind) == h.Kind && e.Msg == "injected", "try must capture the raised error (same kind and message)")
		} else {
			rt.Assert(isInt(res, 7), "a thoughtful chain must substitute the receiver for the failed call")
		}
		return
	}
	e, ok := res.(*object.PanErr)
	if !ok && containsErr(res, 0) {
		rt.Note("the raised error is stored inside the result value")
	}
	rt.Assert(ok, "the raised error must be the outcome (never dropped or stored inside another value)")
	rt.Assert(string(e.ErrKind) == h.Kind && e.Msg == "injected", "the outcome must be the same error kind and message")
}
