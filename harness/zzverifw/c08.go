package zzverifw

// C08 — evaluation order is left-to-right and every run is reproducible.
// Real code under test: evalArr/evalObj/evalMap/evalPair/evalRange/evalInfix/evalArgs/
// evalKwargs/evalPropCall/evalEmbeddedStr/extractEmbeddedElems/assignArgsToEnv ...
// The engine iterates every Go map of 2..4 entries in a SOLVER-CHOSEN order (except the
// audited order-insensitive loops listed in evidence), so "for every hash-table layout"
// is a quantifier the solver enumerates.

import (
	"strings"

	"github.com/Syuparn/pangaea/object"
	rt "github.com/Syuparn/pangaea/zzverifrt"
)

func init() { rt.Register("H_C08_order", H_C08_order) }

type c08T struct {
	name  string
	setup string
	src   string
	m     int    // marks 1..m must appear exactly in this order
	want  string // Inspect() of the result, identical on every path
}

var c08Templates = []c08T{
	{"array elements", "", `[mark(1), mark(2), mark(3)]`, 3, `[1, 2, 3]`},
	{"object pairs", "", `{a: mark(1), b: mark(2), c: mark(3)}`, 3, `{"a": 1, "b": 2, "c": 3}`},
	{"map pairs: key then value", "", `%{mark(1): mark(2), mark(3): mark(4)}`, 4, `%{1: 2, 3: 4}`},
	{"range bounds", "", `(mark(1):mark(2):mark(3))`, 3, `(1:2:3)`},
	{"infix operands", "", `mark(1) + mark(2) * mark(3)`, 3, `7`},
	{"positional then keyword arguments", `f := {|a, b, x: 0, y: 0, z: 0| [a, b, x, y, z]}`, `f(mark(1), mark(2), x: mark(3), y: mark(4), z: mark(5))`, 5, `[1, 2, 3, 4, 5]`},
	{"receiver, chain argument, arguments, keyword arguments", `o := {bar: m{|x, p: 0, q: 0| [x, p, q]}}; rcv := {|i| [o]}; carg := {|i| []}`, `rcv(mark(1))@(carg(mark(2)))bar(mark(3), p: mark(4), q: mark(5))`, 5, `[[3, 4, 5]]`},
	{"interpolated parts", "", `"a#{mark(1)}b#{mark(2)}c#{mark(3)}"`, 3, `"a1b2c3"`},
	{"duplicate keyword argument: first wins", `g := {|x: 0| x}`, `g(x: mark(1), x: mark(2))`, 2, `1`},
	{"duplicate object key: first wins", "", `{a: mark(1), a: mark(2)}`, 2, `{"a": 1}`},
	{"duplicate map key: first wins", "", `%{1: mark(1), 1: mark(2)}`, 2, `%{1: 1}`},
	{"object ** unpacking: first wins", "", `{a: mark(1), **{b: 2, c: 3}, **{a: 9, d: 4}}`, 1, `{"a": 1, "b": 2, "c": 3, "d": 4}`},
	{"map ** unpacking keeps insertion order", `mm := %{'b: 2, 'a: 3, 'c: 4}`, `%{'x: mark(1), **mm}.keys`, 1, `["x", "b", "a", "c"]`},
	{"map ** unpacking of an object lists sorted names", "", `%{'x: mark(1), **{b: 2, a: 3}}.keys`, 1, `["x", "a", "b"]`},
	{"object keys sorted", "", `{b: mark(1), a: mark(2)}.keys`, 2, `["a", "b"]`},
	{"keyword ** unpacking", `f2 := {|x: 0, y: 0| [x, y]}`, `f2(**{y: mark(1), x: mark(2)})`, 2, `[2, 1]`},
	{"object printing", "", `{b: mark(1), a: mark(2)}.S`, 2, "`{\"a\": 2, \"b\": 1}`"},
	{"map printing", "", `%{2: mark(1), 1: mark(2)}.S`, 2, `"%{1: 2, 2: 1}"`},
	{"object equality", "", `{a: mark(1), b: mark(2)} == {b: 2, a: 1}`, 2, `true`},
	{"map equality", "", `%{1: mark(1), 3: mark(2)} == %{3: 2, 1: 1}`, 2, `true`},
	{"keyword parameter defaults", "", `{|x: mark(1), y: mark(2)| [x, y]}()`, 2, `[1, 2]`},
	{"object iteration order", "", `{b: mark(1), a: mark(2)}@{|kv| kv}`, 2, `[["a", 2], ["b", 1]]`},
	{"map iteration order", "", `%{'b: mark(1), 'a: mark(2)}@{|kv| kv}`, 2, `[["b", 1], ["a", 2]]`},
	{"keyword arguments bound by name", `f3 := {|p: 0, q: 0, r: 0| [p, q, r]}`, `f3(r: mark(1), p: mark(2), q: mark(3))`, 3, `[2, 3, 1]`},
	{"three duplicate keyword arguments", `g := {|x: 0| x}`, `g(x: mark(1), x: mark(2), x: mark(3))`, 3, `1`},
	{"keyword arguments written on several lines", `f4 := {|aa: 0, zz: 0| [aa, zz]}`, "f4(\n  zz: mark(1),\n  aa: mark(2)\n)", 2, `[2, 1]`},
	{"duplicate keyword arguments on several lines", `g := {|x: 0| x}`, "g(\n  x: mark(2 - 1),\n  x: mark(1 + 1)\n)", 2, `1`},
	{"receiver, arguments and keyword arguments on several lines", `o := {bar: m{|x, p: 0, q: 0| [x, p, q]}}`, "o.bar(mark(1),\n  q: mark(2),\n  p: mark(3))", 3, `[1, 3, 2]`},
	{"literals written on several lines", "", "[\n  {\n    zz: mark(1),\n    aa: mark(2)\n  },\n  %{\n    mark(3): mark(4),\n    mark(5): mark(6)\n  }\n]", 6, `[{"aa": 2, "zz": 1}, %{3: 4, 5: 6}]`},
	{"nested call arguments", `f := {|a, b, x: 0, y: 0, z: 0| [a, b, x, y, z]}`, `[f(mark(1), mark(2), x: mark(3)), f(mark(4), mark(5), y: mark(6), z: mark(7))]`, 7, `[[1, 2, 3, 0, 0], [4, 5, 0, 6, 7]]`},
	// every chain kind evaluates receiver, arguments and keyword arguments exactly once, also
	// when the call itself is skipped or fails (nil receiver, nil element, empty receiver)
	{"lonely chain on nil", `o := {bar: m{|x, p: 0, q: 0| [x, p, q]}}; rn := {|i| nil}; ro := {|i| o}`, `rn(mark(1))&.foo(mark(2), k: mark(3))`, 3, `nil`},
	{"thoughtful chain on nil", `o := {bar: m{|x, p: 0, q: 0| [x, p, q]}}; rn := {|i| nil}; ro := {|i| o}`, `rn(mark(1))~.foo(mark(2), k: mark(3))`, 3, `nil`},
	{"lonely chain on a value", `o := {bar: m{|x, p: 0, q: 0| [x, p, q]}}; rn := {|i| nil}; ro := {|i| o}`, `ro(mark(1))&.bar(mark(2), p: mark(3))`, 3, `[2, 3, 0]`},
	{"thoughtful chain on a value", `o := {bar: m{|x, p: 0, q: 0| [x, p, q]}}; rn := {|i| nil}; ro := {|i| o}`, `ro(mark(1))~.bar(mark(2), p: mark(3))`, 3, `[2, 3, 0]`},
	{"strict chain on a value", `o := {bar: m{|x, p: 0, q: 0| [x, p, q]}}; rn := {|i| nil}; ro := {|i| o}`, `ro(mark(1))=.bar(mark(2), p: mark(3))`, 3, `[2, 3, 0]`},
	{"lonely list chain over a nil element", `o := {bar: m{|x, p: 0, q: 0| [x, p, q]}}; rn := {|i| nil}; ro := {|i| o}`, `[nil, o]&@bar(mark(1), p: mark(2))`, 2, `[[1, 2, 0]]`},
	{"thoughtful list chain over a nil element", `o := {bar: m{|x, p: 0, q: 0| [x, p, q]}}; rn := {|i| nil}; ro := {|i| o}`, `[nil, o]~@bar(mark(1), p: mark(2))`, 2, `[nil, [1, 2, 0]]`},
	{"list chain over an empty receiver", `o := {bar: m{|x, p: 0, q: 0| [x, p, q]}}; rn := {|i| nil}; ro := {|i| o}`, `[]@bar(mark(1), p: mark(2))`, 2, `[]`},
	{"lonely chain on the nil literal", "", `nil&.S(mark(1))`, 1, `nil`},
	// equality over containers whose entries disagree in several ways at once (one entry
	// differs, another entry's == raises): the outcome may not depend on the table layout
	{"object equality with a raising and a differing entry", `bad := {'==: m{|o| raise ValueErr.new("boom")}}`, `[mark(1), {a: bad, b: 1, c: 2, d: 3} == {a: bad, b: 1, c: 9, d: 8}]`, 1, `[1, false]`},
	{"map equality with a raising and a differing entry", `bad := {'==: m{|o| raise ValueErr.new("boom")}}`, `[mark(1), %{1: bad, 2: 1, 3: 2, 4: 3} == %{1: bad, 2: 1, 3: 9, 4: 8}]`, 1, `[1, false]`},
	{"array of objects equality", `bad := {'==: m{|o| raise ValueErr.new("boom")}}`, `[mark(1), [{a: bad, b: 1}] == [{a: bad, b: 2}]]`, 1, `[1, false]`},
	{"two keyword ** expansions sharing a name: first wins", `f2 := {|x: 0, y: 0| [x, y]}`, `f2(**{x: mark(1)}, **{x: 9, y: mark(2)})`, 2, `[1, 2]`},
	{"keyword ** expansion after an explicit keyword and another expansion", `f2 := {|x: 0, y: 0| [x, y]}`, `f2(y: 1, **{x: mark(1), y: 8}, **{x: 7, y: mark(2)})`, 2, `[1, 1]`},
	{"(known finding C08/interpolation-after-lone-hash) an interpolated part after a lone #", "", "\"# #{mark(1)}\"", 1, `"# 1"`},
	{"interpolated parts are evaluated and converted one after the other", `s1 := {S: m{|| mark(1); "s"}}; s3 := {S: m{|| mark(3); "t"}}`, `"a#{s1}b#{mark(2)}c#{s3}"`, 3, `"asb2ct"`},
	// printing: keys / parameter names that print alike must not make the order depend on the layout
	{"map printing with keys that print alike", "", `%{1.0000001: mark(1), 1.0000002: mark(2), 1.0000003: mark(3)}.S`, 3, `"%{1.000000: 1, 1.000000: 2, 1.000000: 3}"`},
	{"map repr with keys that print alike", "", `%{1.0000001: mark(1), 1.0000002: mark(2), 1.0000003: mark(3)}.repr`, 3, `"%{1.000000: 1, 1.000000: 2, 1.000000: 3}"`},
	{"function printing with duplicate keyword parameters", "", `[mark(1), {|a: 1, a: 2, a: 3| a}.S]`, 1, `[1, "{|a: 1, a: 2, a: 3| a}"]`},
	// equality calls the == of the entries in a fixed order (sorted names / insertion order)
	{"object equality calls == of the entries in name order", `noisy := {|i| {'==: m{|o| mark(i); true}}}`, `{b: noisy(2), a: noisy(1), c: noisy(3)} == {a: 0, b: 0, c: 0}`, 3, `true`},
	{"map equality calls == of the entries in insertion order", `noisy := {|i| {'==: m{|o| mark(i); true}}}`, `%{7: noisy(1), 3: noisy(2), 5: noisy(3)} == %{3: 0, 5: 0, 7: 0}`, 3, `true`},
}

func H_C08_order() {
	t := c08Templates[rt.Param(0)]
	h := NewH()
	if t.setup != "" {
		h.Eval(t.setup)
	}
	h.Reset()
	rt.Note(t.name + ": " + t.src)
	rt.Known("C08/interpolation-after-lone-hash", strings.HasPrefix(t.name, "(known finding C08/interpolation-after-lone-hash)"))
	rt.MapOrder(4)
	res := h.EvalNoPanic(t.src)
	rt.MapOrder(0)
	want := make([]int64, t.m)
	for i := range want {
		want[i] = int64(i + 1)
	}
	rt.Assert(h.TraceIs(want...), "sub-expressions must be evaluated exactly once, in source order, on every hash-table layout")
	_, isErr := res.(*object.PanErr)
	rt.Assert(!isErr, "the construct must not raise")
	rt.Assert(res.Inspect() == t.want, "the result must be the same on every hash-table layout (first occurrence wins, documented orders)")
}
