package zzverifw

// C09 — object and map literals, unpacking and accessors keep their documented key rules.
// Real code under test: evalObj, evalMap, NewInheritedMap, existsNonHashableKey,
// extractEmbeddedElems, findElemInMap/findElemInObj, keyHashes, Obj#/Map# keys, values,
// items, len, _iter, printing.

import (
	"fmt"
	"math"
	"sort"
	"strings"

	"github.com/Syuparn/pangaea/object"
	rt "github.com/Syuparn/pangaea/zzverifrt"
)

func init() {
	rt.Register("H_C09_obj", H_C09_obj)
	rt.Register("H_C09_map", H_C09_map)
}

// (a, a!, ab: one name is another name plus a suffix character that sorts below the letters)
var c09ObjNames = []string{"a", "b", "_p", "a!", "ab"}

// H_C09_obj: an object literal of n = Param(0) pairs plus an embedded literal of
// Param(1) pairs; every name is a solver choice from {a, b, _p}; values are 1, 2, ...
func H_C09_obj() {
	n, e := rt.Param(0), rt.Param(1)
	h := NewH()
	type kv struct {
		name string
		val  int64
	}
	var model []kv
	add := func(name string, v int64) {
		for _, m := range model {
			if m.name == name {
				return // first occurrence wins
			}
		}
		model = append(model, kv{name, v})
	}
	var parts []string
	v := int64(0)
	for i := 0; i < n; i++ {
		v++
		name := c09ObjNames[rt.Choice(len(c09ObjNames))]
		parts = append(parts, fmt.Sprintf("%s: %d", name, v))
		add(name, v)
	}
	if e > 0 {
		var ep []string
		type ekv struct {
			name string
			val  int64
		}
		var inner []ekv
		for i := 0; i < e; i++ {
			v++
			name := c09ObjNames[rt.Choice(len(c09ObjNames))]
			ep = append(ep, fmt.Sprintf("%s: %d", name, v))
			dup := false
			for _, x := range inner {
				if x.name == name {
					dup = true
				}
			}
			if !dup {
				inner = append(inner, ekv{name, v})
			}
		}
		parts = append(parts, "**{"+strings.Join(ep, ", ")+"}")
		for _, x := range inner {
			add(x.name, x.val)
		}
	}
	src := "o := {" + strings.Join(parts, ", ") + "}"
	rt.Note(src)
	o := h.EvalNoPanic(src)
	_, ok := o.(*object.PanObj)
	rt.Assert(ok, "object literal must evaluate to an object")

	var pub, all []kv
	for _, m := range model {
		all = append(all, m)
		if !strings.HasPrefix(m.name, "_") {
			pub = append(pub, m)
		}
	}
	sort.Slice(pub, func(i, j int) bool { return pub[i].name < pub[j].name })
	sort.Slice(all, func(i, j int) bool {
		pi, pj := strings.HasPrefix(all[i].name, "_"), strings.HasPrefix(all[j].name, "_")
		if pi != pj {
			return !pi // public names first, then private ones
		}
		return all[i].name < all[j].name
	})
	checkKeys := func(src string, want []kv) {
		a, ok := h.EvalNoPanic(src).(*object.PanArr)
		rt.Assert(ok && len(a.Elems) == len(want), "keys must list one entry per distinct name (private names only on request)")
		for i, w := range want {
			s, ok := a.Elems[i].(*object.PanStr)
			rt.Assert(ok && s.Value == w.name, "names are listed in sorted order")
		}
	}
	checkVals := func(src string, want []kv) {
		a, ok := h.EvalNoPanic(src).(*object.PanArr)
		rt.Assert(ok && len(a.Elems) == len(want), "values must describe the same pairs as keys")
		for i, w := range want {
			rt.Assert(isInt(a.Elems[i], w.val), "the first occurrence of a name wins")
		}
	}
	checkItems := func(src string, want []kv) {
		a, ok := h.EvalNoPanic(src).(*object.PanArr)
		rt.Assert(ok && len(a.Elems) == len(want), "items / iteration must describe the same pairs as keys")
		for i, w := range want {
			p, ok := a.Elems[i].(*object.PanArr)
			rt.Assert(ok && len(p.Elems) == 2, "an item is a [name, value] pair")
			if ok && len(p.Elems) == 2 {
				s, isStr := p.Elems[0].(*object.PanStr)
				rt.Assert(isStr && s.Value == w.name && isInt(p.Elems[1], w.val), "items / iteration pair each name with its first value")
			}
		}
	}
	checkKeys(`o.keys`, pub)
	checkVals(`o.values`, pub)
	checkItems(`o.items`, pub)
	checkItems(`o@{|kv| kv}`, pub)
	checkKeys(`o.keys(private?: true)`, all)
	checkVals(`o.values(private?: true)`, all)
	checkItems(`o.items(private?: true)`, all)
	for _, name := range c09ObjNames {
		want := int64(-1)
		for _, m := range model {
			if m.name == name {
				want = m.val
			}
		}
		r1 := h.EvalNoPanic(fmt.Sprintf("o['%s]", name))
		r2 := h.EvalNoPanic(fmt.Sprintf("o.%s", name))
		if want >= 0 {
			rt.Assert(isInt(r1, want) && isInt(r2, want), "a name gives the value of its first occurrence")
		} else {
			rt.Assert(isNil(r1) && isErrKind(r2, object.NoPropErr), "an absent name gives nil by index and NoPropErr by call")
		}
	}
}

// ---------------------------------------------------------------- maps

type c09Key struct {
	kind int // 0 int, 1 float, 2 str, 3 nil, 4 bool, 5 one-element array
	i    int64
	f    float64
	s    string
	b    bool
}

func (k c09Key) scalar() bool { return k.kind != 5 }

func (k c09Key) eq(o c09Key) bool {
	if k.kind != o.kind {
		return false
	}
	switch k.kind {
	case 0, 5:
		return k.i == o.i
	case 1:
		// NaN and -0.0 are excluded, so equal values are exactly equal bit patterns
		return math.Float64bits(k.f) == math.Float64bits(o.f)
	case 2:
		return k.s == o.s
	case 4:
		return k.b == o.b
	}
	return true
}

// c09NilVal stands for a stored nil in the model.
const c09NilVal = int64(-7)

func c09IsVal(o object.PanObject, v int64) bool {
	if v == c09NilVal {
		return isNil(o)
	}
	return isInt(o, v)
}

// c09FirstKind >= 0 fixes the kind of the next key made (shard of the heaviest jobs).
var c09FirstKind = -1

func c09NewKey(h *H, name string) c09Key {
	var k c09Key
	if c09FirstKind >= 0 {
		k.kind, c09FirstKind = c09FirstKind, -1
	} else {
		k.kind = rt.Choice(6)
	}
	switch k.kind {
	case 0:
		k.i = rt.Int64()
		h.Set(name, object.NewPanInt(k.i))
	case 1:
		k.f = rt.Float64()
		bits := math.Float64bits(k.f)
		rt.Assume(!(bits&0x7ff0000000000000 == 0x7ff0000000000000 && bits&0x000fffffffffffff != 0)) // not NaN
		rt.Assume(bits != 1<<63)                                                                    // not -0.0
		h.Set(name, object.NewPanFloat(k.f))
	case 2:
		k.s = []string{"s", "t", "len", "keys"}[rt.Choice(4)] // incl. names of Map's own properties
		h.Set(name, object.NewPanStr(k.s))
	case 3:
		h.Set(name, object.BuiltInNil)
	case 4:
		k.b = rt.Bool()
		if k.b {
			h.Set(name, object.BuiltInTrue)
		} else {
			h.Set(name, object.BuiltInFalse)
		}
	case 5:
		k.i = rt.Int64()
		h.Set(name, object.NewPanArr(object.NewPanInt(k.i)))
	}
	return k
}

// H_C09_map: a map literal of n = Param(0) pairs plus embedded maps of Param(1) and Param(2) pairs;
// every key's kind is a solver choice and int/float/array payloads are symbolic, so the
// solver decides which keys collide.
func H_C09_map() {
	n, e := rt.Param(0), rt.Param(1)
	c09FirstKind = rt.Param(3) // -1: the first key's kind is a solver choice like the others
	h := NewH()
	type ent struct {
		k c09Key
		v int64
	}
	var model []ent
	add := func(k c09Key, v int64) {
		for _, m := range model {
			if m.k.eq(k) {
				return
			}
		}
		model = append(model, ent{k, v})
	}
	var keys []c09Key
	var names []string
	var parts []string
	v := int64(0)
	for i := 0; i < n; i++ {
		v++
		name := fmt.Sprintf("k%d", i)
		k := c09NewKey(h, name)
		keys = append(keys, k)
		names = append(names, name)
		if i == 0 && rt.Bool() {
			// the first pair may store nil (a stored nil is a value like any other)
			parts = append(parts, fmt.Sprintf("%s: nil", name))
			add(k, c09NilVal)
		} else {
			parts = append(parts, fmt.Sprintf("%s: %d", name, v))
			add(k, v)
		}
	}
	embed := func(prefix string, e int) {
		if e <= 0 {
			return
		}
		var ep []string
		var inner []ent
		for i := 0; i < e; i++ {
			v++
			name := fmt.Sprintf("%s%d", prefix, i)
			k := c09NewKey(h, name)
			keys = append(keys, k)
			names = append(names, name)
			ep = append(ep, fmt.Sprintf("%s: %d", name, v))
			dup := false
			for _, x := range inner {
				if x.k.eq(k) {
					dup = true
				}
			}
			if !dup {
				inner = append(inner, ent{k, v})
			}
		}
		// the embedded map iterates scalar keys first, then the others
		var ordered []ent
		for _, x := range inner {
			if x.k.scalar() {
				ordered = append(ordered, x)
			}
		}
		for _, x := range inner {
			if !x.k.scalar() {
				ordered = append(ordered, x)
			}
		}
		parts = append(parts, "**%{"+strings.Join(ep, ", ")+"}")
		for _, x := range ordered {
			add(x.k, x.v)
		}
	}
	embed("e", e)
	embed("g", rt.Param(2)) // a second ** expansion
	src := "m := %{" + strings.Join(parts, ", ") + "}"
	rt.Note(src)
	m := h.EvalNoPanic(src)
	_, ok := m.(*object.PanMap)
	rt.Assert(ok, "map literal must evaluate to a map")

	// iteration order: scalar keys in insertion order, then the other keys
	var want []ent
	for _, x := range model {
		if x.k.scalar() {
			want = append(want, x)
		}
	}
	for _, x := range model {
		if !x.k.scalar() {
			want = append(want, x)
		}
	}
	rt.Assert(isInt(h.EvalNoPanic(`m.len`), int64(len(want))), "len counts one pair per distinct key")
	vals, ok := h.EvalNoPanic(`m.values`).(*object.PanArr)
	rt.Assert(ok && len(vals.Elems) == len(want), "values describes the same pairs as len")
	for i, w := range want {
		rt.Assert(c09IsVal(vals.Elems[i], w.v), "the first value given for a key is kept; scalar keys iterate first, in insertion order")
	}
	ks, ok := h.EvalNoPanic(`m.keys`).(*object.PanArr)
	rt.Assert(ok && len(ks.Elems) == len(want), "keys describes the same pairs as len")
	its, ok := h.EvalNoPanic(`m@{|kv| kv}`).(*object.PanArr)
	rt.Assert(ok && len(its.Elems) == len(want), "iteration describes the same pairs as len")
	its2, ok := h.EvalNoPanic(`m.items`).(*object.PanArr)
	rt.Assert(ok && len(its2.Elems) == len(want), "items describes the same pairs as len")
	for i, w := range want {
		for _, a := range []*object.PanArr{its, its2} {
			p, ok := a.Elems[i].(*object.PanArr)
			rt.Assert(ok && len(p.Elems) == 2 && c09IsVal(p.Elems[1], w.v), "items / iteration pair each key with its first value")
		}
	}
	// m[k] for every written key, and for a fresh int key
	for i, name := range names {
		var wv int64 = -1
		for _, x := range model {
			if x.k.eq(keys[i]) {
				wv = x.v
				break
			}
		}
		rt.Assert(c09IsVal(h.EvalNoPanic(fmt.Sprintf("m[%s]", name)), wv), "m[k] returns the value stored under that key")
	}
	q := c09Key{kind: 0, i: rt.Int64()}
	h.Set("q", object.NewPanInt(q.i))
	var wv int64 = -1
	for _, x := range model {
		if x.k.eq(q) {
			wv = x.v
			break
		}
	}
	r := h.EvalNoPanic(`m[q]`)
	if wv >= 0 || wv == c09NilVal {
		rt.Assert(c09IsVal(r, wv), "m[k] returns the value stored under an equal key")
	} else {
		rt.Assert(isNil(r), "m[k] is nil for an absent key")
	}
}
