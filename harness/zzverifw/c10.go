package zzverifw

// C10 through parsed source: `a op b` evaluated by the real Eval in the world (operator
// dispatch: evalInfix / evalPrefix -> builtInCallProp -> the Int built-ins).

import (
	"math"

	"github.com/Syuparn/pangaea/object"
	rt "github.com/Syuparn/pangaea/zzverifrt"
)

func init() { rt.Register("H_C10_eval", H_C10_eval) }

var c10Srcs = []string{`a + b`, `a - b`, `a * b`, `a // b`, `a % b`, `a <=> b`, `-a`, `a < b`, `a == b`, `a >= b`}

func H_C10_eval() {
	op := rt.Param(0)
	h := NewH()
	a, b := rt.Int64(), rt.Int64()
	h.Set("a", object.NewPanInt(a))
	h.Set("b", object.NewPanInt(b))
	res := h.EvalNoPanic(c10Srcs[op])
	iv, isInt := res.(*object.PanInt)
	switch op {
	case 0:
		if rt.FitsAdd(a, b) {
			rt.Assert(isInt && rt.SpecAdd(a, b, iv.Value), "a + b through Eval must be the exact sum")
		}
	case 1:
		if rt.FitsSub(a, b) {
			rt.Assert(isInt && rt.SpecSub(a, b, iv.Value), "a - b through Eval must be the exact difference")
		}
	case 2:
		if rt.FitsMul(a, b) {
			rt.Assert(isInt && rt.SpecMul(a, b, iv.Value), "a * b through Eval must be the exact product")
		}
	case 3:
		if b == 0 {
			rt.Assert(isErrKind(res, object.ZeroDivisionErr), "a // 0 through Eval must raise ZeroDivisionErr")
		} else if !(a == math.MinInt64 && b == -1) {
			rt.Assert(isInt && rt.SpecFloorDiv(a, b, iv.Value), "a // b through Eval must be the floor quotient")
		}
	case 4:
		if b == 0 {
			rt.Assert(isErrKind(res, object.ZeroDivisionErr), "a % 0 through Eval must raise ZeroDivisionErr")
		} else {
			rt.Assert(isInt && rt.SpecMod(a, b, iv.Value), "a % b through Eval must be a remainder with |r| < |b| and b dividing a - r")
		}
	case 5:
		want := int64(0)
		if a < b {
			want = -1
		} else if a > b {
			want = 1
		}
		rt.Assert(isInt && iv.Value == want, "a <=> b through Eval must be -1, 0 or 1 by numeric order")
	case 6:
		if a != math.MinInt64 {
			rt.Assert(isInt && rt.SpecSub(0, a, iv.Value), "-a through Eval must be the exact negation")
		}
	case 7:
		rt.Assert((res == object.BuiltInTrue) == (a < b) && (res == object.BuiltInTrue || res == object.BuiltInFalse), "a < b through Eval must follow the numeric order")
	case 8:
		rt.Assert((res == object.BuiltInTrue) == (a == b) && (res == object.BuiltInTrue || res == object.BuiltInFalse), "a == b through Eval must follow the numeric order")
	case 9:
		rt.Assert((res == object.BuiltInTrue) == (a >= b) && (res == object.BuiltInTrue || res == object.BuiltInFalse), "a >= b through Eval must follow the numeric order")
	}
}
