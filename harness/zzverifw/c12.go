package zzverifw

// C12 — one truthiness rule governs if/else, guards, !, && and ||, with short-circuiting.
// Real code under test (through parser + Eval): evalIf, evalShortCutInfix/canShortCut,
// isTruthy, evalJumpIf*, Obj#!, and the per-type B built-ins.

import (
	"github.com/Syuparn/pangaea/object"
	rt "github.com/Syuparn/pangaea/zzverifrt"
)

func init() { rt.Register("H_C12_truth", H_C12_truth) }

// c12Value builds condition value number `kind` in h's scope as variable c and returns
// the truth value the statement assigns to it.
func c12Value(h *H, kind int) (c object.PanObject, want bool) {
	switch kind {
	case 0: // int, any value
		v := rt.Int64()
		c, want = object.NewPanInt(v), v != 0
	case 1: // float, any bit pattern (NaN, ±Inf, ±0 included)
		f := rt.Float64()
		c, want = object.NewPanFloat(f), !(f == 0)
	case 2:
		if rt.Bool() {
			c, want = object.NewPanStr(""), false
		} else {
			c, want = object.NewPanStr("a"), true
		}
	case 3:
		if rt.Bool() {
			c, want = object.NewPanArr(), false
		} else {
			c, want = object.NewPanArr(object.NewPanInt(0)), true
		}
	case 4:
		if rt.Bool() {
			c, want = h.Eval(`{}`), false
		} else {
			c, want = h.Eval(`{a: nil}`), true
		}
	case 5:
		if rt.Bool() {
			c, want = h.Eval(`%{}`), false
		} else {
			c, want = h.Eval(`%{nil: nil}`), true
		}
	case 6:
		c, want = object.BuiltInNil, false
	case 7:
		c, want = object.BuiltInTrue, true
	case 8:
		c, want = object.BuiltInFalse, false
	case 9: // typed descendant of Int made with bear + new
		v := rt.Int64()
		h.Set("v", object.NewPanInt(v))
		c, want = h.Eval(`Int.bear.new(v)`), v != 0
	case 10: // child of an array value (bear): inherits the array's B
		if rt.Bool() {
			c, want = h.Eval(`[].bear`), false
		} else {
			c, want = h.Eval(`[0].bear`), true
		}
	case 11: // object with a user-defined B (marks 50 each time it is consulted)
		b := rt.Bool()
		if b {
			h.Set("flag", object.BuiltInTrue)
		} else {
			h.Set("flag", object.BuiltInFalse)
		}
		c, want = h.Eval(`{B: m{|| mark(50); flag}}`), b
	case 12: // range values are always truthy? statement: only listed zero values are false
		c, want = h.Eval(`(1:1)`), true
	case 13: // function value
		c, want = h.Eval(`{|x| x}`), true
	case 14: // B is not callable and not a boolean: does not "yield true"
		c, want = h.Eval(`{B: 1}`), false
	case 15:
		c, want = h.Eval(`{B: nil}`), false
	case 16: // B is a method that returns a non-boolean (marks 50)
		c, want = h.Eval(`{B: m{|| mark(50); 5}}`), false
	case 17: // a value with no B at all
		c, want = h.Eval(`BaseObj.bear({})`), false
	case 26: // booleans as PRODUCED by operations and built-ins (not written as literals): a solver
		// choice of producer and polarity; whatever produced it, a boolean follows the one rule
		prods := [][2]string{
			{`JSON.dec("true")`, `JSON.dec("false")`}, {`JSON.dec("[true]")[0]`, `JSON.dec("[false]")[0]`}, {`JSON.dec("{\"a\": true}").a`, `JSON.dec("{\"a\": false}").a`},
			{`1 == 1`, `1 == 2`}, {`!nil`, `!1`}, {`1.kindOf?(Int)`, `1.kindOf?(Str)`}, {`[].empty?`, `[1].empty?`}, {`1.try.val?`, `1.try.err?`},
			{`1 < 2`, `2 < 1`}, {`"a".B`, `"".B`}, {`[1].any? {|x| x == 1}`, `[1].all? {|x| x == 2}`}, {`1 != 2`, `1 != 1`}, {`2 === 2`, `2 === 3`}, {`4.even?`, `3.even?`}, {`[1, 2].has?(1)`, `[1, 2].has?(3)`},
		}
		pr := prods[rt.Choice(len(prods))]
		if rt.Bool() {
			c, want = h.Eval(pr[0]), true
		} else {
			c, want = h.Eval(pr[1]), false
		}
	default: // 18..25: descendants of built-in kinds that carry their OWN B: the user's B decides,
		// never the built-in value (every conditional construct must consult it)
		b := rt.Bool()
		if b {
			h.Set("flag", object.BuiltInTrue)
		} else {
			h.Set("flag", object.BuiltInFalse)
		}
		want = b
		switch kind {
		case 18: // typed Int descendant, any payload
			h.Set("v", object.NewPanInt(rt.Int64()))
			c = h.Eval(`Int.bear({B: m{|| mark(50); flag}}).new(v)`)
		case 19: // child of an int value
			h.Set("v", object.NewPanInt(rt.Int64()))
			c = h.Eval(`v.bear({B: m{|| mark(50); flag}})`)
		case 20: // typed Float descendant, any bit pattern
			h.Set("v", object.NewPanFloat(rt.Float64()))
			c = h.Eval(`Float.bear({B: m{|| mark(50); flag}}).new(v)`)
		case 21: // typed Str descendant, empty or not
			if rt.Bool() {
				c = h.Eval(`Str.bear({B: m{|| mark(50); flag}}).new("")`)
			} else {
				c = h.Eval(`Str.bear({B: m{|| mark(50); flag}}).new("a")`)
			}
		case 22: // typed Arr descendant, empty or not
			if rt.Bool() {
				c = h.Eval(`Arr.bear({B: m{|| mark(50); flag}}).new([])`)
			} else {
				c = h.Eval(`Arr.bear({B: m{|| mark(50); flag}}).new([0])`)
			}
		case 23: // child of nil
			c = h.Eval(`nil.bear({B: m{|| mark(50); flag}})`)
		case 24: // B inherited from a grandparent object
			c = h.Eval(`{B: m{|| mark(50); flag}}.bear.bear({a: 1})`)
		case 25: // child of an empty / non-empty map
			if rt.Bool() {
				c = h.Eval(`%{}.bear({B: m{|| mark(50); flag}})`)
			} else {
				c = h.Eval(`%{1: 2}.bear({B: m{|| mark(50); flag}})`)
			}
		}
	}
	h.Set("c", c)
	return
}

var skipB = []int64{50}

func H_C12_truth() {
	h := NewH()
	kind := rt.Param(0)
	c, want := c12Value(h, kind)
	_, isErr := c.(*object.PanErr)
	rt.Assert(!isErr, "condition value must be constructible")
	h.Reset()

	// the B property itself (kinds 14..17 have a non-boolean B or none: they count as false)
	if kind < 14 || kind >= 18 {
		b := h.EvalNoPanic(`c.B`)
		rt.Assert((b == object.BuiltInTrue) == want, "B must be true exactly for non-zero values")
		rt.Assert(b == object.BuiltInTrue || b == object.BuiltInFalse, "B must yield a boolean")
	}

	// if / else: exactly one branch
	h.Reset()
	r := h.EvalNoPanic(`mark(1) if c else mark(2)`)
	if want {
		rt.Assert(h.TraceIsSkipping(skipB, 1) && isInt(r, 1), "if/else must evaluate exactly the then-branch for a true condition")
	} else {
		rt.Assert(h.TraceIsSkipping(skipB, 2) && isInt(r, 2), "if/else must evaluate exactly the else-branch for a false condition")
	}
	// if without else
	h.Reset()
	r = h.EvalNoPanic(`mark(1) if c`)
	if want {
		rt.Assert(h.TraceIsSkipping(skipB, 1) && isInt(r, 1), "if must evaluate its body for a true condition")
	} else {
		rt.Assert(h.TraceIsSkipping(skipB) && isNil(r), "if must skip its body and give nil for a false condition")
	}
	// ! (a value without any properties has no ! either)
	h.Reset()
	if kind != 17 {
		r = h.EvalNoPanic(`!c`)
		if want {
			rt.Assert(r == object.BuiltInFalse, "!c must be false for a true condition")
		} else {
			rt.Assert(r == object.BuiltInTrue, "!c must be true for a false condition")
		}
	}
	// && : right operand only when the left is true; result is the deciding operand
	h.Reset()
	r = h.EvalNoPanic(`c && mark(7)`)
	if want {
		rt.Assert(h.TraceIsSkipping(skipB, 7) && isInt(r, 7), "&& must evaluate and return the right operand when the left is true")
	} else {
		rt.Assert(h.TraceIsSkipping(skipB) && r == c, "&& must return the left operand itself, without evaluating the right one, when the left is false")
	}
	h.Reset()
	r = h.EvalNoPanic(`c || mark(7)`)
	if want {
		rt.Assert(h.TraceIsSkipping(skipB) && r == c, "|| must return the left operand itself, without evaluating the right one, when the left is true")
	} else {
		rt.Assert(h.TraceIsSkipping(skipB, 7) && isInt(r, 7), "|| must evaluate and return the right operand when the left is false")
	}
	// the same operators when the result is bound to the name of the left operand, in the scope
	// that owns the variable and inside a closure (the variable belongs to an enclosing scope)
	for _, form := range []string{`{|| c := c || mark(7); c}()`, `{|| c ||= mark(7); c}()`, `{|| {|| c := c || mark(7); c}()}()`, `cc := c; cc := cc || mark(7); cc`, `cc := c; cc ||= mark(7); cc`} {
		h.Reset()
		r = h.EvalNoPanic(form)
		if want {
			rt.Assert(h.TraceIsSkipping(skipB) && r == c, "|| must return the left operand itself, without evaluating the right one, when the left is true (result bound to the same name)")
		} else {
			rt.Assert(h.TraceIsSkipping(skipB, 7) && isInt(r, 7), "|| must evaluate and return the right operand when the left is false (result bound to the same name)")
		}
	}
	for _, form := range []string{`{|| c := c && mark(7); c}()`, `{|| c &&= mark(7); c}()`, `cc := c; cc &&= mark(7); cc`} {
		h.Reset()
		r = h.EvalNoPanic(form)
		if want {
			rt.Assert(h.TraceIsSkipping(skipB, 7) && isInt(r, 7), "&& must evaluate and return the right operand when the left is true (result bound to the same name)")
		} else {
			rt.Assert(h.TraceIsSkipping(skipB) && r == c, "&& must return the left operand itself, without evaluating the right one, when the left is false (result bound to the same name)")
		}
	}
	// guarded jump statements
	h.Reset()
	r = h.EvalNoPanic(`{|| return mark(1) if c; mark(2)}()`)
	if want {
		rt.Assert(h.TraceIsSkipping(skipB, 1) && isInt(r, 1), "guarded return must fire for a true condition")
	} else {
		rt.Assert(h.TraceIsSkipping(skipB, 2) && isInt(r, 2), "guarded return must not fire for a false condition")
	}
	h.Reset()
	r = h.EvalNoPanic(`{|| raise ValueErr.new("g") if c; mark(2)}()`)
	if want {
		rt.Assert(h.TraceIsSkipping(skipB) && isErrKind(r, object.ValueErr), "guarded raise must fire for a true condition")
	} else {
		rt.Assert(h.TraceIsSkipping(skipB, 2) && isInt(r, 2), "guarded raise must not fire for a false condition")
	}
	h.Reset()
	r = h.EvalNoPanic(`<{|| yield mark(5) if c}>.new.next`)
	if want {
		rt.Assert(h.TraceIsSkipping(skipB, 5) && isInt(r, 5), "guarded yield must yield for a true condition")
	} else {
		rt.Assert(h.TraceIsSkipping(skipB) && isErrKind(r, object.StopIterErr), "guarded yield must stop the iterator for a false condition")
	}
	// the guard of a guarded defer is decided when the defer statement runs, once
	h.Reset()
	r = h.EvalNoPanic(`{|g| defer mark(9) if g; g := (nil if g else 1); mark(1)}(c)`)
	if want {
		rt.Assert(h.TraceIsSkipping(skipB, 1, 9) && isInt(r, 1), "a guarded defer is decided by its guard at the time the statement runs (true)")
	} else {
		rt.Assert(h.TraceIsSkipping(skipB, 1) && isInt(r, 1), "a guarded defer is decided by its guard at the time the statement runs (false)")
	}
	h.Reset()
	r = h.EvalNoPanic(`{|| defer mark(9) if c; mark(1)}()`)
	if want {
		rt.Assert(h.TraceIsSkipping(skipB, 1, 9) && isInt(r, 1), "guarded defer must register for a true condition")
	} else {
		rt.Assert(h.TraceIsSkipping(skipB, 1) && isInt(r, 1), "guarded defer must not register for a false condition")
	}
}
