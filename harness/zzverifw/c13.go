package zzverifw

// C13 — try/Either captures exactly the error that would have been raised.
// Real code under test: Obj#try, EitherVal#fmap / EitherErr#fmap, A/val/err/or,
// Wrappable.pangaea (_missing, _literalProxy), Either*.pangaea (val?/err?/catch/ignore/
// abandon), literalProxyMiddleware, raise of wrapped errors.

import (
	"fmt"

	"github.com/Syuparn/pangaea/object"
	rt "github.com/Syuparn/pangaea/zzverifrt"
)

func init() {
	rt.Register("H_C13_try", H_C13_try)
	rt.Register("H_C13_reuse", H_C13_reuse)
	rt.Register("H_C13_nested", H_C13_nested)
	rt.Register("H_C13_propstep", H_C13_propstep)
}

// H_C13_reuse: an Either that is kept (bound to a name) and used as the receiver of two
// different continuations: each continuation reports the outcome of its own calls, and
// the kept Either keeps reporting its own.
func H_C13_reuse() {
	h := NewH()
	v := rt.Int64()
	rt.Assume(v > 2 && v < 1000)
	h.Set("v", object.NewPanInt(v))
	r := h.EvalNoPanic(`e := v.try; a := e.+(1); b := e.+(2); c := e.{|x| x * 2}; [a.val, b.val, c.val, e.val, a.A, e.A]`)
	arr, ok := r.(*object.PanArr)
	rt.Assert(ok && len(arr.Elems) == 6, "the chains must evaluate")
	if ok && len(arr.Elems) == 6 {
		rt.Assert(isInt(arr.Elems[0], v+1) && isInt(arr.Elems[1], v+2) && isInt(arr.Elems[2], v*2), "each continuation of a kept Either holds the result of its own step")
		rt.Assert(isInt(arr.Elems[3], v), "a kept Either keeps holding its own value after steps were applied to it")
		rt.Assert(arrOfIntNil(arr.Elems[4], v+1) && arrOfIntNil(arr.Elems[5], v), "A reports the single outcome of each Either")
	}
	r = h.EvalNoPanic(`s := v.try.{|x| x - v}; t := s.+(3); u := s.{|x| 1 / x}; [t.val, u.err?, u.val, s.val, s.err?]`)
	arr, ok = r.(*object.PanArr)
	rt.Assert(ok && len(arr.Elems) == 5, "the chains must evaluate")
	if ok && len(arr.Elems) == 5 {
		rt.Assert(isInt(arr.Elems[0], 3) && arr.Elems[1] == object.BuiltInTrue && isNil(arr.Elems[2]), "a failure in one continuation is captured by that continuation")
		rt.Assert(isInt(arr.Elems[3], 0) && arr.Elems[4] == object.BuiltInFalse, "a kept Either is not changed by a later failing step")
	}
	r = h.EvalNoPanic(`f := v.try.{|x| x / 0}; g := f.+(1); k := f.catch(ZeroDivisionErr) {|q| 7}; [f.err?, g.err?, k.val, f.val, f.err?]`)
	arr, ok = r.(*object.PanArr)
	rt.Assert(ok && len(arr.Elems) == 5, "the chains must evaluate")
	if ok && len(arr.Elems) == 5 {
		rt.Assert(arr.Elems[0] == object.BuiltInTrue && arr.Elems[1] == object.BuiltInTrue && isInt(arr.Elems[2], 7) && isNil(arr.Elems[3]) && arr.Elems[4] == object.BuiltInTrue, "a kept failed Either keeps its error whatever is derived from it")
	}
}

// H_C13_nested: an Either - and an error value delivered by .err - is also an ordinary value.  A step that SUCCEEDS with an Either as
// its result (failed or not) makes a successful chain holding that Either; a chain started
// on an Either calls its steps on that Either.
func H_C13_nested() {
	h := NewH()
	v := rt.Int64()
	rt.Assume(v > 2 && v < 1000)
	h.Set("v", object.NewPanInt(v))
	innerKind := rt.Choice(3) // a failed Either, a successful Either, or an error VALUE (as delivered by .err)
	failedInner := innerKind == 0
	switch innerKind {
	case 0:
		h.Eval(`inner := v.try.{|x| x / 0}`)
	case 1:
		h.Eval(`inner := v.try.+(1)`)
	default:
		h.Eval(`inner := v.try.{|x| x / 0}.err`)
	}
	inner := h.Eval(`inner`)
	form := rt.Choice(3)
	src := []string{`1.try.{|x| inner}`, `{get: m{inner}}.try.get`, `1.try.+(1).{|x| inner}`}[form]
	rt.Note(src)
	r := h.EvalNoPanic(src)
	_, raised := r.(*object.PanErr)
	rt.Assert(!raised, "a chain started with try must not raise")
	h.Set("r", r)
	rt.Assert(h.EvalNoPanic(`r.err?`) == object.BuiltInFalse && h.EvalNoPanic(`r.val?`) == object.BuiltInTrue, "a step that returns an Either did not fail: the chain reports success")
	rt.Assert(h.EvalNoPanic(`r.val`) == inner, "val is the value the step returned (the inner Either itself)")
	rt.Assert(isNil(h.EvalNoPanic(`r.err`)), "err is nil when no step failed")
	a, ok := h.EvalNoPanic(`r.A`).(*object.PanArr)
	rt.Assert(ok && len(a.Elems) == 2 && a.Elems[0] == inner && isNil(a.Elems[1]), "A is [value, nil] when no step failed")
	rt.Assert(h.EvalNoPanic(`r.abandon`) == inner, "abandon returns the value when no step failed")
	if innerKind == 2 {
		// a chain started on an error value: its steps are called on that value
		q := h.EvalNoPanic(`inner.try.{|e| e.msg}.A`)
		qa, ok := q.(*object.PanArr)
		rt.Assert(ok && len(qa.Elems) == 2 && qa.Elems[0].Type() == object.StrType && isNil(qa.Elems[1]), "a chain started on an error value calls its steps with that value")
		return
	}
	// or / val / abandon on a successful chain whose value is falsy: still the value
	fz := h.EvalNoPanic(`[0.try.or(9), "".try.or(9), false.try.or(9), [].try.or(9), 1.try.-(1).or(9), 0.try.val, false.try.abandon]`)
	rt.Assert(fz.Inspect() == `[0, "", false, [], 0, 0, false]`, "or gives the value of a successful chain, whatever the value is")
	// a chain started on an Either: its steps are called on that Either
	q := h.EvalNoPanic(`inner.try.{|e| e.err?}.A`)
	qa, ok := q.(*object.PanArr)
	want := object.BuiltInFalse
	if failedInner {
		want = object.BuiltInTrue
	}
	rt.Assert(ok && len(qa.Elems) == 2 && qa.Elems[0] == want && isNil(qa.Elems[1]), "a chain started on an Either value calls its steps with that Either")
}

// H_C13_propstep (known finding C13/non-callable-or-missing-property-step): a property step whose
// property is not callable gives the property, as the plain call does; a step naming a property that
// does not exist captures the error the plain call raises (same kind and message).
func H_C13_propstep() {
	h := NewH()
	rt.Known("C13/non-callable-or-missing-property-step", true)
	v := rt.Int64()
	rt.Assume(v > 2 && v < 1000)
	h.Set("v", object.NewPanInt(v))
	if rt.Bool() { // (two separate paths: each assertion is reached on its own)
		a, ok := h.EvalNoPanic(`{a: v}.try.a.A`).(*object.PanArr)
		rt.Assert(ok && len(a.Elems) == 2 && isInt(a.Elems[0], v) && isNil(a.Elems[1]), "a step naming a non-callable property holds that property, as the plain call does")
		return
	}
	plain, isErr := h.EvalNoPanic(`v.nosuchprop`).(*object.PanErr)
	w, ok2 := h.EvalNoPanic(`v.try.nosuchprop.err`).(*object.PanErrWrapper)
	rt.Assert(isErr && ok2 && w.ErrKind == plain.ErrKind && w.Msg == plain.Msg, "err must hold an error with the type and message the plain call raised")
}

func arrOfIntNil(o object.PanObject, v int64) bool {
	a, ok := o.(*object.PanArr)
	return ok && len(a.Elems) == 2 && isInt(a.Elems[0], v) && isNil(a.Elems[1])
}

var c13Kinds = []string{"ValueErr", "TypeErr", "ZeroDivisionErr", "NameErr", "NoPropErr", "AssertionErr"}

// H_C13_try: a chain of k steps (k = Param(0)); each step's form is a solver choice
// (property call, operator call, literal call, property call with positional / keyword
// arguments); step i raises iff i == K.
func H_C13_try() {
	k := rt.Param(0)
	h := NewH()
	h.Kind = c13Kinds[rt.Choice(len(c13Kinds))]
	K := rt.Int64()
	rt.Assume(K >= 0 && K <= int64(k))
	// the receiver: an object whose methods are the steps (names the Either wrapper does
	// not define itself, see DESIGN.md Appendix B, C13 domain note)
	h.Eval(`o := {n: 5, stp1: m{|| step(1); self}, stp2: m{|| step(2); self}, stp3: m{|| step(3); self}, '+: m{|d| step(d); self}, stpk: m{|i, by: 0| step(i - 50 + by); self}, stpp: m{|i, j| step(i + j - 7); self}}`)
	forms := make([]int, k)
	for i := range forms {
		forms[i] = rt.Choice(5)
	}
	mk := func(recv string) string {
		expr := recv
		for i := 1; i <= k; i++ {
			switch forms[i-1] {
			case 0: // property call
				expr += fmt.Sprintf(".stp%d", i)
			case 1: // literal call
				expr += fmt.Sprintf(".{|x| step(%d); x}", i)
			case 2: // operator call
				expr += fmt.Sprintf(".+(%d)", i) // operator call in chain form
			case 3: // property call with a positional and a keyword argument
				expr += fmt.Sprintf(".stpk(%d, by: 50)", i)
			case 4: // property call with two positional arguments
				expr += fmt.Sprintf(".stpp(%d, 7)", i)
			}
		}
		return expr
	}
	plainSrc := mk("o")
	trySrc := mk("o.try")
	rt.Note(trySrc)

	h.K = K
	h.Reset()
	plain := h.EvalNoPanic(plainSrc)
	plainTrace := append([]int64{}, h.Trace...)
	h.Reset()
	r := h.EvalNoPanic(trySrc)
	rt.Assert(traceEq(h.Trace, plainTrace, nil), "the wrapped chain must call exactly the steps the plain chain calls (steps after a failure are skipped)")
	_, raised := r.(*object.PanErr)
	rt.Assert(!raised, "a chain started with try must not raise")
	h.Set("r", r)
	h.K = 0

	a := h.EvalNoPanic(`r.A`)
	arr, isArr := a.(*object.PanArr)
	rt.Assert(isArr && len(arr.Elems) == 2, "A must be a two-element array")
	val := h.EvalNoPanic(`r.val`)
	errv := h.EvalNoPanic(`r.err`)
	hasVal := h.EvalNoPanic(`r.val?`)
	hasErr := h.EvalNoPanic(`r.err?`)
	orv := h.EvalNoPanic(`r.or(99)`)
	aband := h.EvalNoPanic(`r.abandon`)

	if pe, failed := plain.(*object.PanErr); failed {
		w, ok := errv.(*object.PanErrWrapper)
		rt.Assert(ok && w.ErrKind == pe.ErrKind && w.Msg == pe.Msg, "err must hold an error with the type and message the plain call raised")
		rt.Assert(isNil(val) && isNil(arr.Elems[0]), "val and A[0] must be nil after a failure")
		w2, ok2 := arr.Elems[1].(*object.PanErrWrapper)
		rt.Assert(ok2 && w2.ErrKind == pe.ErrKind && w2.Msg == pe.Msg, "A must be [nil, error]")
		rt.Assert(hasVal == object.BuiltInFalse && hasErr == object.BuiltInTrue, "val? / err? must report the failure")
		rt.Assert(isInt(orv, 99), "or must give the default after a failure")
		ae, ok3 := aband.(*object.PanErr)
		rt.Assert(ok3 && ae.ErrKind == pe.ErrKind && ae.Msg == pe.Msg, "abandon must re-raise the captured error")
		h.Set("kind", h.Eval(h.Kind))
		c := h.EvalNoPanic(`r.catch(kind) {|e| 7}.val`)
		rt.Assert(isInt(c, 7), "catch of the matching type must convert the error by the handler")
		other := "TypeErr"
		if h.Kind == "TypeErr" {
			other = "ValueErr"
		}
		h.Set("other", h.Eval(other))
		c2 := h.EvalNoPanic(`r.catch(other) {|e| 7}.err`)
		w3, ok4 := c2.(*object.PanErrWrapper)
		rt.Assert(ok4 && w3.ErrKind == pe.ErrKind, "catch of another type must leave the error in place")
		ig := h.EvalNoPanic(`r.ignore(kind).A`)
		iga, ok5 := ig.(*object.PanArr)
		rt.Assert(ok5 && len(iga.Elems) == 2 && isNil(iga.Elems[0]) && isNil(iga.Elems[1]), "ignore of the matching type must give a nil value and no error")
		return
	}
	// no failure: same value as the unwrapped calls
	rt.Assert(val == plain && arr.Elems[0] == plain, "val and A[0] must be the value of the unwrapped chain")
	rt.Assert(isNil(errv) && isNil(arr.Elems[1]), "err and A[1] must be nil without a failure")
	rt.Assert(hasVal == object.BuiltInTrue && hasErr == object.BuiltInFalse, "val? / err? must report success")
	rt.Assert(orv == plain, "or must give the value without a failure")
	rt.Assert(aband == plain, "abandon must return the value without a failure")
	h.Set("kind", h.Eval(h.Kind))
	c := h.EvalNoPanic(`r.catch(kind) {|e| 7}.val`)
	rt.Assert(c == plain, "catch must do nothing without a failure")
	ig := h.EvalNoPanic(`r.ignore(kind).val`)
	rt.Assert(ig == plain, "ignore must do nothing without a failure")
}
