package zzverifw

// C14 — iterator literals follow the next/yield/recur protocol and are independent.
// Real code under test: evalIter, iterNew, iterNext/evalIterCall/recur, evalJumpIfYield,
// Iter#_iter (copiedIterFromIter), list chains and A over iterators (iterOf/iterHandler).

import (
	"fmt"

	"github.com/Syuparn/pangaea/object"
	rt "github.com/Syuparn/pangaea/zzverifrt"
)

func init() {
	rt.Register("H_C14_iter", H_C14_iter)
	rt.Register("H_C14_capture", H_C14_capture)
}

// H_C14_capture: what a step yields may capture the step's arguments (a closure, an array):
// the values yielded by earlier steps still say what they said after the iterator advanced.
func H_C14_capture() {
	h := NewH()
	lim := c14Small(0, 4)
	d := c14Small(1, 2)
	n0 := c14Small(-1, 2)
	h.Set("lim", object.NewPanInt(lim))
	h.Set("d", object.NewPanInt(d))
	h.Set("a", object.NewPanInt(n0))
	var want []int64
	for s := (c14State{n0}); ; {
		v, more := s.next(lim, d)
		if !more || len(want) > 8 {
			break
		}
		want = append(want, v)
	}
	c14NilOn = false
	for _, src := range []string{
		`<{|n| yield {|| n * 10 + 1} if n < lim; recur(n + d)}>.new(a).A@{|f| f()}`,
		`<{|n| yield [n * 10 + 1, {|| n}] if n < lim; recur(n + d)}>.new(a).A@{|p| p[1]() * 10 + 1}`,
		`it := <{|n| yield {|| n * 10 + 1} if n < lim; recur(n + d)}>.new(a); fs := it@{|f| f}; fs@{|f| f()}`,
	} {
		rt.Note(src)
		rt.Assert(arrOfInts(h.EvalNoPanic(src), want...), "a value yielded by an earlier step still holds that step's arguments after the iterator has advanced")
	}
	// the yielded expression is evaluated only when the guard holds (it may pull from another iterator)
	r := h.EvalNoPanic(`src := [1, 2, 3, 4]._iter; t := <{|n| yield src.next if n > 0; recur(n - 1)}>.new(2); x := t.next; y := t.next; z := t.try.next.err?; w := t.try.next.err?; [x, y, src.next, t.A.len]`)
	rt.Assert(arrOfInts(r, 1, 2, 3, 0), "each next evaluates the body once and stops exactly when the guard is false, without evaluating the guarded expression")
}

type c14State struct{ n int64 }

// c14NilAt: in the third family the value yielded for n == c14NilAt is nil (the model
// reports it as c14Nil); c14NilOn is false for the other families.
var c14NilOn bool
var c14NilAt int64

const c14Nil = int64(-1 << 62)

// model: one next() of the family  <{|n| yield n * 10 + 1 if n < lim; recur(n + d)}>
func (s *c14State) next(lim, d int64) (int64, bool) {
	if s.n < lim {
		v := s.n*10 + 1
		if c14NilOn && s.n == c14NilAt {
			v = c14Nil
		}
		s.n += d
		return v, true
	}
	return 0, false
}

// c14Is: res is the value the model expects (an int, or nil for c14Nil)
func c14Is(res object.PanObject, v int64) bool {
	if v == c14Nil {
		return isNil(res)
	}
	return isInt(res, v)
}

func c14Small(lo, hi int64) int64 {
	v := rt.Int64()
	rt.Assume(v >= lo && v <= hi)
	return v
}

// H_C14_iter: a history of L = Param(0) operations over two iterators made from one
// literal (start values, limit and stride symbolic), each operation a solver choice.
func H_C14_iter() {
	L := rt.Param(0)
	h := NewH()
	narrow := rt.Param(3) == 1
	lim := c14Small(-2, 5)
	d := c14Small(1, 3)
	if narrow {
		rt.Assume(lim >= 0 && lim <= 2 && d <= 2)
	}
	h.Set("lim", object.NewPanInt(lim))
	h.Set("d", object.NewPanInt(d))
	lit := `gen := <{|n| yield n * 10 + 1 if n < lim; recur(n + d)}>`
	c14NilOn = false
	if rt.Param(4) == 1 {
		// the same iterator written without declared parameters (state in the implicit argument \)
		lit = "gen := <{yield \\ * 10 + 1 if \\ < lim; recur(\\ + d)}>"
	}
	if rt.Param(4) == 3 {
		// recur written BEFORE the yield: the rest of the step still sees this step's arguments
		lit = `gen := <{|n| recur(n + d); yield n * 10 + 1 if n < lim}>`
	}
	if rt.Param(4) == 2 {
		// a body whose first yield gives nil for one argument value z, followed by a second
		// yield and by a non-nil last statement: next returns the FIRST yielded value, nil included
		c14NilOn, c14NilAt = true, c14Small(-3, 5)
		if narrow {
			rt.Assume(c14NilAt >= -1 && c14NilAt <= 2)
		}
		h.Set("z", object.NewPanInt(c14NilAt))
		lit = `gen := <{|n| yield (nil if n == z else n * 10 + 1) if n < lim; recur(n + d); yield 77; n * 10 + 7}>`
	}
	r := h.EvalNoPanic(lit)
	_, isErr := r.(*object.PanErr)
	rt.Assert(!isErr, "iterator literal must evaluate")
	st := make([]*c14State, 2)
	for i := 0; i < 2; i++ {
		n0 := c14Small(-3, 5)
		if narrow {
			rt.Assume(n0 >= -1 && n0 <= 2)
		}
		h.Set("a", object.NewPanInt(n0))
		h.EvalNoPanic(fmt.Sprintf(`it%d := gen.new(a)`, i))
		st[i] = &c14State{n0}
	}
	// checkList: mode 0 = the array holds the visited values; 1 = each visited value wrapped in a
	// one-element array (nil visible); 2 = the visited values with nil dropped (a list chain,
	// and A which is one, drops nil results by design)
	checkList := func(res object.PanObject, s c14State, mode int) {
		arr, ok := res.(*object.PanArr)
		rt.Assert(ok, "a chain or A over an iterator must give an array")
		if !ok {
			return
		}
		j := 0
		for k := 0; ; k++ {
			v, more := s.next(lim, d)
			if !more {
				break
			}
			if k > 12 {
				rt.Assume(false)
			}
			if mode == 2 && v == c14Nil {
				continue
			}
			var got object.PanObject
			if j < len(arr.Elems) {
				got = arr.Elems[j]
				if w, isArr := got.(*object.PanArr); mode == 1 && isArr && len(w.Elems) == 1 {
					got = w.Elems[0]
				} else if mode == 1 {
					got = nil
				}
			}
			rt.Assert(got != nil && c14Is(got, v), "a chain visits exactly the values successive next calls would return")
			j++
		}
		rt.Assert(len(arr.Elems) == j, "a chain stops at the first StopIterErr")
	}
	for step := 0; step < L; step++ {
		var i, op int
		if step == 0 && rt.Param(1) >= 0 {
			i, op = rt.Param(1), rt.Param(2) // shard: first operation fixed by the job
		} else if step == 1 && rt.Param(5) >= 0 {
			i, op = rt.Param(5), rt.Choice(5) // shard: iterator of the second operation fixed by the job
		} else {
			i, op = rt.Choice(2), rt.Choice(5)
		}
		switch op {
		case 0: // next
			res := h.EvalNoPanic(fmt.Sprintf(`it%d.next`, i))
			v, more := st[i].next(lim, d)
			if more {
				rt.Assert(c14Is(res, v), "next must return the value yielded for the current arguments")
			} else {
				rt.Assert(isErrKind(res, object.StopIterErr), "next must raise StopIterErr exactly when the yield guard is false, and keep doing so")
			}
		case 1: // list chain over the iterator: does not advance it
			if c14NilOn {
				res := h.EvalNoPanic(fmt.Sprintf(`it%d@{|x| [x]}`, i))
				checkList(res, *st[i], 1)
			} else {
				res := h.EvalNoPanic(fmt.Sprintf(`it%d@{|x| x}`, i))
				checkList(res, *st[i], 0)
			}
		case 2: // A
			res := h.EvalNoPanic(fmt.Sprintf(`it%d.A`, i))
			if c14NilOn {
				checkList(res, *st[i], 2)
			} else {
				checkList(res, *st[i], 0)
			}
		case 3: // a fresh iterator from the same literal replaces it_i
			n0 := c14Small(-3, 5)
			if narrow {
				rt.Assume(n0 >= -1 && n0 <= 2)
			}
			h.Set("a", object.NewPanInt(n0))
			h.EvalNoPanic(fmt.Sprintf(`it%d := gen.new(a)`, i))
			st[i] = &c14State{n0}
		case 4: // a fresh iterator made from the OTHER iterator (fresh, advanced or exhausted) replaces it_i
			n0 := c14Small(-3, 5)
			if narrow {
				rt.Assume(n0 >= -1 && n0 <= 2)
			}
			h.Set("a", object.NewPanInt(n0))
			h.EvalNoPanic(fmt.Sprintf(`it%d := it%d.new(a)`, i, 1-i))
			st[i] = &c14State{n0}
		}
	}
	// final cross-check: both iterators still agree with their own models
	// (two rounds: it0, it1, it0, it1 — progress made by one must not show in the other)
	for round := 0; round < 2; round++ {
		for i := 0; i < 2; i++ {
			res := h.EvalNoPanic(fmt.Sprintf(`it%d.next`, i))
			v, more := st[i].next(lim, d)
			if more {
				rt.Assert(c14Is(res, v), "iterators made from one literal never share progress")
			} else {
				rt.Assert(isErrKind(res, object.StopIterErr), "iterators made from one literal never share progress")
			}
		}
	}
}
