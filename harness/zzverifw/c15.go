package zzverifw

// C15 — deferred expressions run exactly once, in order, on every way out of a function.
// Real code under test: evalStmts/_evalStmts/evalDefer, evalJumpIfDefer, evalJumpStmt,
// evalPanFuncCall (through parsed programs).

import (
	"fmt"
	"strings"

	"github.com/Syuparn/pangaea/object"
	rt "github.com/Syuparn/pangaea/zzverifrt"
)

func init() { rt.Register("H_C15_defer", H_C15_defer) }

const c15Kinds = 7

// H_C15_defer: a function body of n statements (n = Param(0)); each statement's kind is a
// solver choice; the exit point k and the guards g_i are symbolic ints.
func H_C15_defer() {
	n := rt.Param(0)
	h := NewH()
	k := rt.Int64()
	h.Set("k", object.NewPanInt(k))
	// bad(i): marks i, then raises
	h.SetFn("bad", func(env *object.Env, kwargs *object.PanObj, args ...object.PanObject) object.PanObject {
		h.Trace = append(h.Trace, intArg(args, 0))
		return object.NewValueErr("deferred failure")
	})
	h.Eval(`boom := {|| defer mark(300); raise TypeErr.new("nested")}`)

	kinds := make([]int, n)
	guards := make([]int64, n)
	var stmts []string
	for i := 0; i < n; i++ {
		if i == 0 && rt.Param(1) >= 0 {
			kinds[i] = rt.Param(1) // shard: first statement kind fixed by the job
		} else {
			kinds[i] = rt.Choice(c15Kinds)
		}
		switch kinds[i] {
		case 0:
			stmts = append(stmts, fmt.Sprintf("mark(%d)", i))
		case 1:
			stmts = append(stmts, fmt.Sprintf("defer mark(%d)", 100+i))
		case 2:
			guards[i] = rt.Int64()
			h.Set(fmt.Sprintf("g%d", i), object.NewPanInt(guards[i]))
			stmts = append(stmts, fmt.Sprintf("defer mark(%d) if g%d", 100+i, i))
		case 3:
			stmts = append(stmts, fmt.Sprintf("return mark(%d) if k == %d", 200+i, i))
		case 4:
			stmts = append(stmts, fmt.Sprintf(`raise ValueErr.new("raised") if k == %d`, i))
		case 5:
			stmts = append(stmts, fmt.Sprintf("boom() if k == %d", i))
		case 6:
			stmts = append(stmts, fmt.Sprintf("defer bad(%d)", 100+i))
		}
	}
	src := "f := {|| " + strings.Join(stmts, "; ") + "}; {|| r := f(); mark(999); r}()"
	rt.Note(src)

	// reference (DESIGN.md Appendix B, C15)
	var want []int64
	var defers []int64 // >0: mark; <0: marks -x then raises
	outcome := "value" // "value" | "ValueErr" | "TypeErr"
	var val int64 = -1 // expected value when known, -1 = not asserted, -2 = nil
	exited := false
	for i := 0; i < n && !exited; i++ {
		switch kinds[i] {
		case 0:
			want = append(want, int64(i))
			val = int64(i)
		case 1:
			defers = append(defers, int64(100+i))
			val = -1
		case 2:
			if guards[i] != 0 {
				defers = append(defers, int64(100+i))
				val = -1
			} else {
				val = -2
			}
		case 3:
			if k == int64(i) {
				want = append(want, int64(200+i))
				val = int64(200 + i)
				exited = true
			} else {
				val = -2
			}
		case 4:
			if k == int64(i) {
				outcome = "ValueErr"
				exited = true
			} else {
				val = -2
			}
		case 5:
			if k == int64(i) {
				want = append(want, 300)
				outcome = "TypeErr"
				exited = true
			} else {
				val = -2
			}
		case 6:
			defers = append(defers, -int64(100+i))
			val = -1
		}
	}
	for _, d := range defers {
		if d > 0 {
			want = append(want, d)
			continue
		}
		want = append(want, -d)
		outcome = "ValueErr"
		break
	}
	if outcome == "value" {
		want = append(want, 999)
	}

	res := h.EvalNoPanic(src)
	rt.Assert(h.TraceIs(want...), "body statements and reached defers must each run exactly once, defers after the body in the order reached")
	switch outcome {
	case "ValueErr":
		rt.Assert(isErrKind(res, object.ValueErr), "outcome must be the raised error (or the error of a raising defer)")
	case "TypeErr":
		rt.Assert(isErrKind(res, object.TypeErr), "outcome must be the error of the nested failing call")
	default:
		_, isErr := res.(*object.PanErr)
		rt.Assert(!isErr, "defers must not turn a normal outcome into an error")
		if val >= 0 {
			rt.Assert(isInt(res, val), "the function's value must be unchanged by its defers")
		} else if val == -2 {
			rt.Assert(isNil(res), "the function's value must be unchanged by its defers")
		}
	}
}
