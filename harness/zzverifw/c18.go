package zzverifw

// C18 — equality and ordering obey their algebraic laws.
// Real code under test: the per-type == / != / <=> built-ins, Comparable.pangaea
// (<, <=, >, >=, between?, clip), BaseObj.pangaea (!=), Iterable max/min — all through
// parsed programs in the bootstrapped world.

import (
	"math"

	"github.com/Syuparn/pangaea/object"
	rt "github.com/Syuparn/pangaea/zzverifrt"
)

func init() {
	rt.Register("H_C18_eq", H_C18_eq)
	rt.Register("H_C18_ord", H_C18_ord)
	rt.Register("H_C18_trans", H_C18_trans)
}

var c18Strs = []string{"", "a", "b", "ab"}

// kinds 0..4 are ordered kinds (ints, floats, strs and values inheriting from them)
const c18Ordered = 6

// c18Val binds variable `name` to a value of the given kind with a symbolic payload.
// It reports whether the value is a NaN float.
func c18Val(h *H, name string, kind int) (v object.PanObject, nan bool) {
	switch kind {
	case 0: // int
		v = object.NewPanInt(rt.Int64())
	case 1: // float (any bit pattern)
		f := rt.Float64()
		nan = f != f
		v = object.NewPanFloat(f)
	case 2: // str from a small pool
		v = object.NewPanStr(c18Strs[rt.Choice(len(c18Strs))])
	case 3: // typed descendant of Int: IntChild.new(n)
		h.Set("n_", object.NewPanInt(rt.Int64()))
		v = h.Eval(`IntChild.new(n_)`)
	case 4: // boolean (inherits from Int)
		if rt.Bool() {
			v = object.BuiltInTrue
		} else {
			v = object.BuiltInFalse
		}
	case 5: // typed descendant of Str
		h.Set("s_", object.NewPanStr(c18Strs[rt.Choice(len(c18Strs))]))
		v = h.Eval(`StrChild.new(s_)`)
	case 6: // array: one symbolic element, the same plus a second element, or empty
		switch rt.Choice(3) {
		case 0:
			v = object.NewPanArr(object.NewPanInt(rt.Int64()))
		case 1:
			v = object.NewPanArr(object.NewPanInt(rt.Int64()), object.NewPanInt(1))
		default:
			v = object.NewPanArr()
		}
	case 7: // object and its bear child
		h.Set("n_", object.NewPanInt(rt.Int64()))
		switch rt.Choice(4) {
		case 0:
			v = h.Eval(`{a: n_}`)
		case 1:
			v = h.Eval(`{a: n_}.bear({b: 1})`)
		case 2: // a superset of the first shape
			v = h.Eval(`{a: n_, b: 1}`)
		default:
			v = h.Eval(`{}`)
		}
	case 8: // map with a symbolic key
		h.Set("n_", object.NewPanInt(rt.Int64()))
		// shapes that are sub- / supersets of each other, with scalar and non-scalar keys
		v = h.Eval([]string{`%{n_: 1}`, `%{n_: 1, [1]: 2}`, `%{n_: 1, 'k: 3}`, `%{[1]: 2}`, `%{[1]: 2, {a: 1}: 3}`, `%{}`}[rt.Choice(6)])
	case 9: // range
		h.Set("n_", object.NewPanInt(rt.Int64()))
		v = h.Eval(`(n_:3)`)
	case 10:
		v = object.BuiltInNil
	case 11: // function
		v = h.Eval(`{|q| q}`)
	case 12: // Either values
		h.Set("n_", object.NewPanInt(rt.Int64()))
		if rt.Bool() {
			v = h.Eval(`n_.try`)
		} else {
			v = h.Eval(`n_.try.{|q| q / 0}`)
		}
	case 13: // error value
		v = h.Eval(`1.try.{|q| q / 0}.err`)
	}
	h.Set(name, v)
	return
}

const c18Kinds = 14

func c18Setup(h *H) {
	h.Eval(`IntChild := Int.bear({tag: 1}); StrChild := Str.bear({tag: 1})`)
}

func (h *H) truth(src string) (val bool, isBool bool) {
	r := h.EvalNoPanic(src)
	if r == object.BuiltInTrue {
		return true, true
	}
	if r == object.BuiltInFalse {
		return false, true
	}
	return false, false
}

// H_C18_eq: x == x, symmetry of ==, != is the negation — all pairs of kinds.
func H_C18_eq() {
	h := NewH()
	c18Setup(h)
	_, nanX := c18Val(h, "x", rt.Param(0))
	_, nanY := c18Val(h, "y", rt.Param(1))
	xx, ok := h.truth(`x == x`)
	rt.Assert(ok, "== must yield a boolean")
	if !nanX {
		rt.Assert(xx, "x == x must hold (except NaN)")
	}
	xy, ok1 := h.truth(`x == y`)
	yx, ok2 := h.truth(`y == x`)
	rt.Assert(ok1 && ok2, "== must yield a boolean")
	rt.Assert(xy == yx, "x == y exactly when y == x")
	ne, ok3 := h.truth(`x != y`)
	rt.Assert(ok3, "!= must yield a boolean")
	rt.Assert(ne == !xy, "x != y must be the negation of x == y")
	_ = nanY
}

func c18Cmp(h *H, src string) (int64, bool) {
	r := h.EvalNoPanic(src)
	i, ok := r.(*object.PanInt)
	if !ok {
		return 0, false
	}
	return i.Value, true
}

// H_C18_ord: trichotomy, unions, antisymmetry of <=>, max/min/between?/clip — pairs of one ordered kind.
func H_C18_ord() {
	h := NewH()
	c18Setup(h)
	k := rt.Param(0)
	_, nanX := c18Val(h, "x", k)
	_, nanY := c18Val(h, "y", k)
	rt.Known("C18/float-nan-ordering", nanX || nanY)
	lt, o1 := h.truth(`x < y`)
	eq, o2 := h.truth(`x == y`)
	gt, o3 := h.truth(`x > y`)
	le, o4 := h.truth(`x <= y`)
	ge, o5 := h.truth(`x >= y`)
	rt.Assert(o1 && o2 && o3 && o4 && o5, "comparisons must yield booleans")
	n := 0
	if lt {
		n++
	}
	if eq {
		n++
	}
	if gt {
		n++
	}
	rt.Assert(n == 1, "exactly one of x < y, x == y, x > y must hold")
	rt.Assert(le == (lt || eq), "x <= y must be the union of < and ==")
	rt.Assert(ge == (gt || eq), "x >= y must be the union of > and ==")
	c1, k1 := c18Cmp(h, `x <=> y`)
	c2, k2 := c18Cmp(h, `y <=> x`)
	rt.Assert(k1 && k2, "<=> must yield an int")
	rt.Assert(c1 == -c2, "x <=> y must be the negation of y <=> x")
	rt.Assert((c1 == -1) == lt && (c1 == 0) == eq && (c1 == 1) == gt, "<=> must agree with <, == and >")
	// max / min / between? / clip agree with the order
	mx := h.EvalNoPanic(`[x, y].max`)
	mn := h.EvalNoPanic(`[x, y].min`)
	h.Set("mx", mx)
	h.Set("mn", mn)
	b1, _ := h.truth(`(mx == x) || (mx == y)`)
	b2, _ := h.truth(`(mx >= x) && (mx >= y)`)
	rt.Assert(b1 && b2, "max must be the larger of its operands")
	b3, _ := h.truth(`(mn == x) || (mn == y)`)
	b4, _ := h.truth(`(mn <= x) && (mn <= y)`)
	rt.Assert(b3 && b4, "min must be the smaller of its operands")
	bt, ok := h.truth(`x.between?(mn, mx)`)
	rt.Assert(ok && bt, "between?(min, max) must hold for a value between them")
	cl := h.EvalNoPanic(`x.clip(y, y)`)
	h.Set("cl", cl)
	b5, _ := h.truth(`cl == y`)
	rt.Assert(b5, "clip(y, y) must be y")
}

// H_C18_trans: transitivity on triples of one ordered kind.
func H_C18_trans() {
	h := NewH()
	c18Setup(h)
	k := rt.Param(0)
	_, nanX := c18Val(h, "x", k)
	_, nanY := c18Val(h, "y", k)
	_, nanZ := c18Val(h, "z", k)
	rt.Known("C18/float-nan-ordering", nanX || nanY || nanZ)
	xy, _ := h.truth(`x < y`)
	yz, _ := h.truth(`y < z`)
	xz, _ := h.truth(`x < z`)
	if xy && yz {
		rt.Assert(xz, "< must be transitive")
	}
	exy, _ := h.truth(`x == y`)
	eyz, _ := h.truth(`y == z`)
	exz, _ := h.truth(`x == z`)
	if exy && eyz {
		rt.Assert(exz, "== must be transitive")
	}
	lxy, _ := h.truth(`x <= y`)
	lyz, _ := h.truth(`y <= z`)
	lxz, _ := h.truth(`x <= z`)
	if lxy && lyz {
		rt.Assert(lxz, "<= must be transitive")
	}
	_ = math.NaN
}
