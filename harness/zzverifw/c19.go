package zzverifw

// C19 — a fresh evaluation is independent of what the process evaluated before.
// Real code under test: evaluator.Eval / appendStackTrace / evalIdent / Either abstract
// props over the shared world (constants environment, BuiltIn* objects, the shared
// BuiltInNotImplemented error), and runscript.runTest's per-file scope.

import (
	"sort"

	"github.com/Syuparn/pangaea/evaluator"
	"github.com/Syuparn/pangaea/object"
	"github.com/Syuparn/pangaea/runscript"
	rt "github.com/Syuparn/pangaea/zzverifrt"
)

func init() {
	rt.Register("H_C19_frame", H_C19_frame)
	rt.Register("H_C19_runtest", H_C19_runtest)
	rt.Register("H_C19_builtins", H_C19_builtins)
}

var c19Programs = []string{
	`x := a; y := x + 1; y`,
	`raise ValueErr.new("boom")`,
	`f := {|n| raise TypeErr.new("deep") if n == 0; f(n - 1)}; f(2)`,
	`_`,
	`Either.A`,
	`Either.fmap`,
	`nil.nothing`,
	`Int := a; Arr := nil; Int`,
	`[a]@{|q| 1 / 0}`,
	`x := Obj.bear({k: a}); x.k`,
	`a.try.{|q| _}.err`,
	`{|| defer 1 / 0; a}()`,
	`1.try.{|q| raise AssertionErr.new("t")}.abandon`,
	`"#{a}"`,
	`it := [a]._iter; it.next; it.next`,
	`it := (1:2)._iter; it.next; it.next.try.err`,
	`[a, 2].withI.A; it := "s"._iter; it.next; it.next`,
	`Either['A]`,
	`Obj.callProp(Either, 'val)`,
	`Either.at(['fmap])`,
	`[Either]@{|e| e['err]}`,
	`invite!("dummy"); message`,
	`m := import("dummy"); m.message`,
	`message`,
	// hashing a str that belongs to the program (a descendant of Str with its own props) under a
	// text no earlier program has used
	`s := Str.bear({shout: m{|| 1}}).new("zebraQuaggaA"); s != "okapi"`,
	`k := Str.bear({tag: 2}).new("zebraQuaggaB"); %{k: 1}[k]`,
	`"zebraQuaggaA := 5".evalEnv.keys@{|k| k.proto == Str}`,
	// (known finding C19/shared-error-through-values) the abstract props of Either read as raw pairs
	`Either.values[0]`,
}

// c19KnownValues: index of the program above
const c19KnownValues = 27

// run evaluates src in a FRESH scope of the shared world and returns (Inspect, stack trace).
func c19Run(src string, a int64) (string, string, object.PanObject) {
	h := NewH()
	h.Set("a", object.NewPanInt(a))
	res := h.EvalNoPanic(src)
	st := ""
	if e, ok := res.(*object.PanErr); ok {
		st = e.StackTrace
	}
	return res.Inspect(), st, res
}

func c19WorldSnap() []*snap {
	World()
	var hs []object.SymHash
	for hsh := range Env.Store {
		hs = append(hs, hsh)
	}
	sort.Slice(hs, func(i, j int) bool { return hs[i] < hs[j] })
	var out []*snap
	for _, hsh := range hs {
		out = append(out, takeSnap(Env.Store[hsh], 0))
	}
	out = append(out, takeSnap(object.BuiltInNotImplemented, 0))
	return out
}

// H_C19_frame: inductive step. Program B = Param(1) is evaluated in a fresh scope, then a
// history program H = Param(0), then B again in another fresh scope: B's value, error
// message and stack trace must be the same, and everything reachable from the shared
// constants environment must be unchanged by each evaluation.
func H_C19_frame() {
	hi := rt.Param(0)
	bi := rt.Choice(len(c19Programs)) // the later program: a solver choice among the family
	if rt.Param(1) >= 0 {
		rt.Assume(bi == rt.Param(1) || bi == hi || bi == 3 || bi == 4 || bi == 14 || bi == 16 || bi == 17 || bi == 23 || bi == 26)
	}
	rt.Known("C19/shared-error-through-values", hi == c19KnownValues || bi == c19KnownValues)
	a := int64(7) // results are compared by their printed form, so the input is concrete
	world := c19WorldSnap()
	nStore := len(Env.Store)
	unchanged := func(msg string) {
		rt.Assert(len(Env.Store) == nStore, "earlier programs must not define variables in the shared environment")
		for _, s := range world {
			rt.Assert(s.same(), msg)
		}
		rt.Assert(object.VH_C19_symtabPlain(), "the symbol table hands later programs plain strs only, never an object of an earlier program")
	}
	v1, st1, _ := c19Run(c19Programs[bi], a)
	unchanged("an evaluation must leave the shared built-in objects and errors unchanged")
	c19Run(c19Programs[hi], a)
	unchanged("an evaluation must leave the shared built-in objects and errors unchanged")
	v2, st2, _ := c19Run(c19Programs[bi], a)
	rt.Note(c19Programs[hi] + "  |  " + c19Programs[bi])
	rt.Assert(v1 == v2, "a program gives the same value / error message whatever was evaluated before")
	rt.Assert(st1 == st2, "a stack trace never contains source lines or positions of earlier programs")
	_ = evaluator.Eval
}

var c19Preludes = []string{
	`o := Int; o2 := {y: 1, p: 5}; m := %{Int: Obj}; m2 := %{'k: [Str]}; a := [Int, Str, Nil]; aa := [[Arr], [Obj]]; ch := Arr`,
	`o := {p: 1, q: [2]}; o2 := Str; m := %{1: Int}; m2 := %{Obj: 2}; a := [1, Int]; aa := [[Obj]]; ch := Iterable`,
	`o := Obj; o2 := Int; m := %{'a: Arr}; m2 := %{'a: Map}; a := [Obj, BaseObj, Func]; aa := [[Int], [Float]]; ch := Comparable`,
}

// H_C19_builtins: a history program that hands the SHARED built-in objects (Int, Str, Obj,
// Arr ...) to one of the call-site / literal constructs of C06 (unpacking, merging, bear,
// chains, digest ...; shard Param(0) of Param(1)) must leave everything reachable from the
// shared constants environment unchanged, so that later programs find the built-in objects
// with their original properties.
func H_C19_builtins() {
	world := c19WorldSnap()
	nStore := len(Env.Store)
	unchanged := func(msg string) {
		rt.Assert(len(Env.Store) == nStore, "earlier programs must not define variables in the shared environment")
		for _, s := range world {
			rt.Assert(s.same(), msg)
		}
	}
	h := NewH()
	pre := c19Preludes[rt.Choice(len(c19Preludes))]
	h.Eval(pre + `; s := "abc"; r := (1:3); rd := (1:5:2); ad := [Int, Str]; i := 3; fn := {|q| q}; f2 := {|p: 0, y: 0| [p, y]}; f3 := {|u, v, w| [u, v, w]}`)
	unchanged("binding built-in objects to names must leave them unchanged")
	lo := len(c06Constructs) * rt.Param(0) / rt.Param(1)
	hi := len(c06Constructs) * (rt.Param(0) + 1) / rt.Param(1)
	c := c06Constructs[lo+rt.Choice(hi-lo)]
	rt.Note(pre + " ; " + c)
	probe := func() string {
		return NewH().EvalNoPanic(`[1.try.verbose.err?, Int.keys.len, Obj.keys.len, Str.keys.len, Arr.keys.len, 1.try.y.err?, "s".try.p.err?]`).Inspect()
	}
	before := probe()
	h.EvalNoPanic(c)
	unchanged("an evaluation must leave the shared built-in objects unchanged, whatever construct they are handed to")
	rt.Assert(probe() == before, "built-in objects keep their original properties for later programs")
}

// H_C19_runtest: the next file run by `pangaea test` does not see variables of the previous file.
func H_C19_runtest() {
	first := []string{"leak := 1\n", "leak := 1; other := 2\n", "f := {|| 1}\n"}[rt.Choice(3)]
	second := []string{"leak\n", "other\n", "f()\n"}[rt.Choice(3)]
	want := 1 // NameErr: the second file must not see anything the first one defined
	p1 := rt.TempFile("verif_c19_first.pangaea", first)
	p2 := rt.TempFile("verif_c19_second.pangaea", second)
	rt.Note(first + " | " + second)
	code1, code2, leaked := runscript.VH_C19_runtest(p1, p2)
	rt.Assert(code1 == 0, "the first file runs")
	defined := (first == "leak := 1\n" && second == "leak\n") || (first == "leak := 1; other := 2\n" && (second == "leak\n" || second == "other\n")) || (first == "f := {|| 1}\n" && second == "f()\n")
	_ = defined
	rt.Assert(code2 == want, "variables defined by an earlier test file are not visible to the next one")
	rt.Assert(!leaked, "a test file must not define variables in the environment shared by all files")
}
