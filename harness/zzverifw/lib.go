package zzverifw

// Shared harness library for evaluator-level properties: a fresh scope of the
// bootstrapped world with observer built-ins (mark / step / tv), program evaluation
// through the real parser + evaluator, and small oracles.

import (
	"strings"

	"github.com/Syuparn/pangaea/evaluator"
	"github.com/Syuparn/pangaea/object"
	"github.com/Syuparn/pangaea/parser"
	rt "github.com/Syuparn/pangaea/zzverifrt"
)

type H struct {
	Env   *object.Env
	Trace []int64
	K     int64  // step(i) raises iff i == K (0 = nobody fails)
	Kind  string // error constructor used by step, e.g. "ValueErr"
}

func intArg(args []object.PanObject, i int) int64 {
	if i < len(args) {
		if v, ok := args[i].(*object.PanInt); ok {
			return v.Value
		}
	}
	return -1
}

// NewH returns a harness context: a fresh enclosed scope of the world.
func NewH() *H {
	World()
	h := &H{Env: object.NewEnclosedEnv(Env), Kind: "ValueErr"}
	// mark(i): records i, returns i
	h.SetFn("mark", func(env *object.Env, kwargs *object.PanObj, args ...object.PanObject) object.PanObject {
		i := intArg(args, 0)
		h.Trace = append(h.Trace, i)
		return object.NewPanInt(i)
	})
	// step(i): records i, raises iff i == K, else returns i
	h.SetFn("step", func(env *object.Env, kwargs *object.PanObj, args ...object.PanObject) object.PanObject {
		i := intArg(args, 0)
		h.Trace = append(h.Trace, i)
		if i == h.K {
			return h.injected()
		}
		return object.NewPanInt(i)
	})
	return h
}

func (h *H) injected() object.PanObject {
	switch h.Kind {
	case "TypeErr":
		return object.NewTypeErr("injected")
	case "ZeroDivisionErr":
		return object.NewZeroDivisionErr("injected")
	case "NameErr":
		return object.NewNameErr("injected")
	case "NoPropErr":
		return object.NewNoPropErr("injected")
	case "AssertionErr":
		return object.NewAssertionErr("injected")
	case "StopIterErr":
		return object.NewStopIterErr("injected")
	}
	return object.NewValueErr("injected")
}

func (h *H) Set(name string, v object.PanObject) { h.Env.Set(object.GetSymHash(name), v) }

func (h *H) SetFn(name string, fn object.BuiltInFunc) { h.Set(name, object.NewPanBuiltInFunc(fn)) }

// Eval parses (natively bridged in the engine) and evaluates src in the harness scope.
func (h *H) Eval(src string) object.PanObject {
	prog, err := parser.Parse(parser.NewReader(strings.NewReader(src), "<verif>"))
	if err != nil {
		panic("harness program does not parse: " + src + ": " + err.Error())
	}
	return evaluator.Eval(prog, h.Env)
}

// EvalNoPanic evaluates src and asserts that no Go panic escapes the interpreter.
func (h *H) EvalNoPanic(src string) object.PanObject {
	var res object.PanObject
	pm := rt.Panics(func() { res = h.Eval(src) })
	rt.Assert(pm == "", "evaluation must not abort the interpreter")
	return res
}

func (h *H) Reset() { h.Trace = nil }

// TraceIs compares the recorded marks (ignoring those in skip) with want.
func (h *H) TraceIs(want ...int64) bool { return traceEq(h.Trace, want, nil) }

func (h *H) TraceIsSkipping(skip []int64, want ...int64) bool { return traceEq(h.Trace, want, skip) }

func traceEq(got, want, skip []int64) bool {
	j := 0
	for _, g := range got {
		s := false
		for _, k := range skip {
			if g == k {
				s = true
			}
		}
		if s {
			continue
		}
		if j >= len(want) || want[j] != g {
			return false
		}
		j++
	}
	return j == len(want)
}

func isErrKind(o object.PanObject, kind object.ErrKind) bool {
	e, ok := o.(*object.PanErr)
	return ok && e.ErrKind == kind
}

func isInt(o object.PanObject, v int64) bool {
	i, ok := o.(*object.PanInt)
	return ok && i.Value == v
}

func isNil(o object.PanObject) bool { return o == object.BuiltInNil }
