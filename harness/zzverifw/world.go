// Package zzverifw holds harness entry points that need the whole interpreter
// (overlay-only package; it may import di, evaluator, props, parser, runscript).
package zzverifw

import (
	"strings"

	"github.com/Syuparn/pangaea/di"
	"github.com/Syuparn/pangaea/evaluator"
	"github.com/Syuparn/pangaea/object"
	"github.com/Syuparn/pangaea/parser"
	rt "github.com/Syuparn/pangaea/zzverifrt"
)

// Env is the bootstrapped constants environment (built once per worker / replay process).
var Env *object.Env

// World builds the interpreter world exactly as main.go / runscript.setup do.
func World() {
	if Env != nil {
		return
	}
	Env = object.NewEnvWithConsts()
	di.InjectBuiltInProps(Env)
	Env.InjectFrom(object.BuiltInKernelObj)
}

// Run evaluates src in a fresh scope of the world and returns the result object.
func Run(src string) object.PanObject {
	World()
	e := object.NewEnclosedEnv(Env)
	prog, err := parser.Parse(parser.NewReader(strings.NewReader(src), "<verif>"))
	if err != nil {
		return object.NewPanErr("PARSE ERROR: " + err.Error())
	}
	return evaluator.Eval(prog, e)
}

// Inspect is the concrete-differential entry: result.Inspect() of a program.
func Inspect(src string) string { return Run(src).Inspect() }

func init() {
	rt.Register("H_C11_arr", H_C11_arr)
	rt.Register("H_C11_str", H_C11_str)
	rt.Register("H_C11_idx", H_C11_idx)
}

func H_C11_arr() { evaluator.VH_C11_arr(rt.Param(0)) }
func H_C11_str() { evaluator.VH_C11_str(rt.Param(0), rt.Param(1)) }
func H_C11_idx() { evaluator.VH_C11_idx(rt.Param(0), rt.Param(1)) }
