// Package zzverifw holds harness entry points that need the whole interpreter
// (overlay-only package; it may import di, evaluator, props, parser, runscript).
package zzverifw

import (
	"strings"

	"github.com/Syuparn/pangaea/di"
	"github.com/Syuparn/pangaea/evaluator"
	"github.com/Syuparn/pangaea/object"
	"github.com/Syuparn/pangaea/parser"
	"github.com/Syuparn/pangaea/props"
	rt "github.com/Syuparn/pangaea/zzverifrt"
	"github.com/macrat/simplexer"
)

// Env is the bootstrapped constants environment (built once per worker / replay process).
var Env *object.Env

// World builds the interpreter world exactly as main.go / runscript.setup do.
func World() {
	if Env != nil {
		return
	}
	Env = object.NewEnvWithConsts()
	di.InjectBuiltInProps(Env)
	Env.InjectFrom(object.BuiltInKernelObj)
}

// Run evaluates src in a fresh scope of the world and returns the result object.
func Run(src string) object.PanObject {
	World()
	e := object.NewEnclosedEnv(Env)
	prog, err := parser.Parse(parser.NewReader(strings.NewReader(src), "<verif>"))
	if err != nil {
		return object.NewPanErr("PARSE ERROR: " + err.Error())
	}
	return evaluator.Eval(prog, e)
}

// Inspect is the concrete-differential entry: result.Inspect() of a program.
func Inspect(src string) string { return Run(src).Inspect() }

func init() {
	rt.Register("H_C11_arr", H_C11_arr)
	rt.Register("H_C11_str", H_C11_str)
	rt.Register("H_C11_idx", H_C11_idx)
	rt.Register("H_C17_int", H_C17_int)
	rt.Register("H_C17_digits", H_C17_digits)
	rt.Register("H_C17_strctx", H_C17_strctx)
	rt.Register("H_C17_namectx", H_C17_namectx)
	rt.Register("H_C17_expint", H_C17_expint)
	rt.Register("H_C17_str", H_C17_str)
	rt.Register("H_C17_float", H_C17_float)
	rt.Register("H_C16_scan", H_C16_scan)
	rt.Register("H_C16_chunks", H_C16_chunks)
	rt.Register("H_C16_layout", H_C16_layout)
	rt.Register("H_C02_infix", H_C02_infix)
	rt.Register("H_C02_mixed", H_C02_mixed)
	rt.Register("H_C10_bin", H_C10_bin)
	rt.Register("H_C10_neg", H_C10_neg)
	rt.Register("H_C10_pow", H_C10_pow)
	rt.Register("H_C10_pow_pool", H_C10_pow_pool)
}

func H_C17_int()    { parser.VH_C17_int(rt.Param(0)) }
func H_C17_digits() { parser.VH_C17_digits(rt.Param(0), rt.Param(1), rt.Param(2)) }
func H_C17_strctx() { parser.VH_C17_strctx() }
func H_C17_namectx() { parser.VH_C17_namectx() }
func H_C17_expint() { parser.VH_C17_expint() }
func H_C17_str()    { parser.VH_C17_str() }
func H_C17_float()  { parser.VH_C17_float() }
func H_C16_chunks() { parser.VH_C16_chunks(rt.Param(0)) }
func H_C16_layout() { parser.VH_C16_layout(rt.Param(0)) }
func H_C16_scan() { simplexer.VH_C16_scan(rt.Param(0) == 1, int64(rt.Param(1)), rt.Param(2) == 1, rt.Param(3)) }
func H_C02_infix() { parser.VH_C02_infix(rt.Param(0), rt.Param(1), rt.Param(2)) }
func H_C02_mixed() { parser.VH_C02_mixed(rt.Param(0)) }
func H_C10_bin() { props.VH_C10_bin(rt.Param(0)) }
func H_C10_neg() { props.VH_C10_neg() }
func H_C10_pow() { props.VH_C10_pow(rt.Param(0)) }
func H_C10_pow_pool() { props.VH_C10_pow_pool(rt.Param(0)) }

func H_C11_arr() { evaluator.VH_C11_arr(rt.Param(0)) }
func H_C11_str() { evaluator.VH_C11_str(rt.Param(0), rt.Param(1)) }
func H_C11_idx() { evaluator.VH_C11_idx(rt.Param(0), rt.Param(1)) }
