package zzverifw

// Native replay driver: runs recorded nondet vectors against the natively compiled
// harnesses and the real interpreter (go test -overlay; nothing is written to /repo).

import (
	"encoding/json"
	"fmt"
	"github.com/Syuparn/pangaea/object"
	"os"
	"strings"
	"testing"

	rt "github.com/Syuparn/pangaea/zzverifrt"
)

type replayEntry struct {
	Func   string     `json:"func"`
	Params []int      `json:"params"`
	Vector []rt.Entry `json:"vector"`
	Repeat int        `json:"repeat,omitempty"` // for outcomes that depend on Go map order
}

func runOne(e replayEntry) (res string) {
	defer func() {
		if r := recover(); r != nil {
			switch r := r.(type) {
			case rt.AssertFailed:
				res = "ASSERT: " + r.Msg
			case rt.AssumeFailed:
				res = "ASSUME-FAILED"
			default:
				res = fmt.Sprintf("PANIC: %v", r)
			}
		}
	}()
	rt.Vec = append([]rt.Entry{}, e.Vector...)
	rt.Params = e.Params
	rt.Notes = nil
	name := e.Func
	if i := strings.LastIndex(name, "."); i >= 0 {
		name = name[i+1:]
	}
	f := rt.Lookup(name)
	if f == nil {
		return "NO-SUCH-HARNESS " + name
	}
	f()
	return "OK"
}

func TestVerifReplay(t *testing.T) {
	path := os.Getenv("VERIF_REPLAY_FILE")
	if path == "" {
		t.Skip("no replay file")
	}
	b, err := os.ReadFile(path)
	if err != nil {
		t.Fatal(err)
	}
	var entries []replayEntry
	if err := json.Unmarshal(b, &entries); err != nil {
		t.Fatal(err)
	}
	for i, e := range entries {
		n := e.Repeat
		if n < 1 {
			n = 1
		}
		res := "OK"
		for k := 0; k < n; k++ {
			// the engine rolls the whole heap back between paths; natively the entries of one file run
			// in one process, so the one piece of process-wide state an earlier entry can have written
			// (the stack trace of the shared NotImplementedErr, known finding C19/shared-error-through-
			// values) is reset before each entry
			object.BuiltInNotImplemented.StackTrace = ""
			res = runOne(e)
			if res != "OK" {
				break
			}
		}
		fmt.Printf("REPLAY %d %s\n", i, res)
	}
}

// TestVerifInspect: concrete differential — Inspect() of each program, natively.
func TestVerifInspect(t *testing.T) {
	path := os.Getenv("VERIF_INSPECT_FILE")
	if path == "" {
		t.Skip("no inspect file")
	}
	b, err := os.ReadFile(path)
	if err != nil {
		t.Fatal(err)
	}
	var srcs []string
	if err := json.Unmarshal(b, &srcs); err != nil {
		t.Fatal(err)
	}
	for i, s := range srcs {
		func() {
			defer func() {
				if r := recover(); r != nil {
					fmt.Printf("INSPECT %d %q\n", i, fmt.Sprintf("PANIC: %v", r))
				}
			}()
			fmt.Printf("INSPECT %d %q\n", i, Inspect(s))
		}()
	}
}
