#!/usr/bin/env python3
"""Flatten a gosym query log (incremental push/pop script) into self-contained queries.
usage: flatten.py LOG OUTDIR [--only-asserts]   -> OUTDIR/qNNNN.smt2, prints count"""
import sys, os, re
def sexps(text):
    depth=0; start=None
    for i,c in enumerate(text):
        if c=='(':
            if depth==0: start=i
            depth+=1
        elif c==')':
            depth-=1
            if depth==0: yield text[start:i+1]
log,out=sys.argv[1],sys.argv[2]
os.makedirs(out,exist_ok=True)
decls=[]; stack=[[]]; n=0
for e in sexps(open(log).read()):
    if e.startswith('(declare-') or e.startswith('(set-'):
        decls.append(e)
    elif e.startswith('(push'):
        stack.append([])
    elif e.startswith('(pop'):
        k=int(re.findall(r'\d+',e)[0]) if re.findall(r'\d+',e) else 1
        for _ in range(k): stack.pop()
    elif e.startswith('(assert'):
        stack[-1].append(e)
    elif e.startswith('(check-sat'):
        body=[a for fr in stack for a in fr]
        used=set(re.findall(r'\b([ibnq]\d+)\b',' '.join(body)))
        ds=[d for d in decls if not d.startswith('(declare-const') or d.split()[1] in used]
        with open(os.path.join(out,'q%05d.smt2'%n),'w') as f:
            f.write('\n'.join(ds+body+['(check-sat)'])+'\n')
        n+=1
print(n)
