#!/usr/bin/env python3
"""Regenerates /verif/MANIFEST.json from the tables below (keeps the manifest valid at all times)."""
import json
props=[json.loads(l) for l in open('/verif/properties.jsonl')]
TRUST="Trusted: go/ssa construction (x/tools v0.29.0), the forked x/tools SSA interpreter, the SMT solvers; oracles are written from the statement/docs (DESIGN.md Appendix B); every counterexample and a sample of proved paths are replayed natively (go test -overlay) before anything is reported."
CLAIMED={
 "C10":("Bounded symbolic execution of the real IntProps closures (+ - * // % <=> / unary -, **): both operands are solver variables over the full int64 range; exactness against Int-theory specifications (sum/difference/product when they fit, floor quotient, remainder law, numeric order, float quotient, exact power) is discharged by z3 on every feasible path. ** is decided per concrete exponent (quick: 0..16,31,32,39,40,62,63; thorough: 0..63) for every base whose power fits. Holds for ALL operand values within those bounds.",
        TRUST+" Engine lemmas for the multiply-then-divide overflow idiom and the math.Pow contract stub are listed in evidence.",
        "SMT-decided bounded symbolic execution of go/ssa (z3; Int theory with explicit wrap-around, FP for /)"),
 "C11":("Bounded symbolic execution of the real findElemInArr/findElemInStr -> valRange -> fixRange SSA: start/stop/step each nil-or-any-int64 and any int64 index are solver variables; for every feasible path z3 discharges equality with a Python-slice reference (length, element identity, ValueErr, no panic). Holds for ALL bound values for sequence lengths 0..3 (quick) / 0..5 (thorough); nothing is claimed for longer sequences.",
        TRUST,
        "SMT-decided bounded symbolic execution of go/ssa (z3, 64-bit bit-vectors)"),
}
CLAIMED["C12"]=("Bounded symbolic execution of the real evaluator (evalIf, evalShortCutInfix/canShortCut, isTruthy, evalJumpIf*, Obj#!, per-type B built-ins) through parsed programs in the bootstrapped world: the condition is a value of each built-in kind with a symbolic payload (any int64, any float64 bit pattern, either boolean returned by a user-defined B ...); on every feasible path z3 discharges that B, if/else, if, !, &&, ||, guarded return/raise/yield/defer all follow the one truth value, evaluate exactly one branch / the right operand at most once, and return the deciding operand itself. Holds for all payload values within the listed kinds and templates.",
        TRUST,
        "SMT-decided bounded symbolic execution of go/ssa (z3, bit-vectors + FP)")
CLAIMED["C15"]=("Bounded symbolic execution of the real evalStmts/_evalStmts/evalDefer/evalJumpIf*/evalPanFuncCall through generated programs: every body of 1..3 (thorough 1..4) statements over 7 statement kinds, with the exit point k and each defer guard an arbitrary int64; on every feasible path z3 discharges equality of the observed mark trace and outcome with the reference model (reached defers run once, in order, after the body; outcome unchanged unless a defer raises), including the caller continuing afterwards.",
        TRUST,
        "SMT-decided bounded symbolic execution of go/ssa (z3, bit-vectors); program shapes enumerated by solver-decided choices")
CLAIMED["C07"]=("Bounded symbolic execution of the real evaluator over 25 program templates whose sub-expressions are fault-injection slots step(i): the failing position K is a solver variable in [0, m] and the error kind a solver choice; on every feasible path z3 discharges that nothing is evaluated after the failing slot, no slot runs twice, the enclosing call/statement list does not continue, the outcome is the same error kind and message (or is delivered to try / the thoughtful chain), and without a failure every slot runs once.",
        TRUST,
        "SMT-decided bounded symbolic execution of go/ssa (z3, bit-vectors); symbolic fault position")
CLAIMED["C08"]=("Bounded symbolic execution of the real evaluator over 26 templates with side-effecting slots, in which the iteration order of every Go map (2..4 entries) touched during evaluation is chosen by the solver: on every feasible order z3 discharges that the slots run exactly once in source order and that the result prints identically (first occurrence wins, documented key orders). Covers every hash-table layout within the bound instead of the handful a test run happens to see.",
        TRUST+" The list of audited order-insensitive map loops is part of the claim (evidence.assumptions).",
        "SMT-decided bounded symbolic execution of go/ssa with solver-chosen Go map iteration order (z3)")
CLAIMED["C18"]=("Bounded symbolic execution of the real ==, !=, <=> built-ins and the native Comparable/BaseObj/Iterable sources through parsed programs: operands of 14 value kinds with symbolic payloads (any int64, any float64 bit pattern, ...); on every feasible path z3 discharges reflexivity (except NaN), symmetry, != as negation, trichotomy, <=/>= as unions, antisymmetry of <=>, agreement of max/min/between?/clip, and transitivity on triples. Counterexamples with a NaN operand are a recorded known finding.",
        TRUST,
        "SMT-decided bounded symbolic execution of go/ssa (z3, bit-vectors + FP)")
CLAIMED["C13"]=("Bounded symbolic execution of the real Obj#try / Either*#fmap / A / val / err / or built-ins and the native Wrappable/Either sources through parsed programs: chains of 1..2 (thorough 1..3) steps in every combination of property call, literal call and chain-form operator call, with the failing step K and the error kind solver-chosen; on every feasible path z3 discharges that the wrapped chain calls exactly the steps the plain chain calls, never raises, and that A/val/err/val?/err?/or/abandon/catch/ignore all describe the plain chain's outcome (same error type and message, or the identical value).",
        TRUST,
        "SMT-decided bounded symbolic execution of go/ssa (z3, bit-vectors); symbolic fault position")
CLAIMED["C14"]=("Bounded symbolic execution of the real evalIter / iterNew / iterNext / recur / guarded yield / Iter#_iter and the list-chain and A paths over iterators, through parsed programs: histories of 1..2 (thorough 1..3) solver-chosen operations over two iterators made from one literal whose limit, stride and start values are symbolic; on every feasible path z3 discharges agreement with a per-iterator state machine (value per next, StopIterErr exactly and persistently when the guard is false, chains visit exactly the remaining values without advancing the iterator, iterators never share progress).",
        TRUST,
        "SMT-decided bounded symbolic execution of go/ssa (z3, bit-vectors); symbolic operation history")
CLAIMED["C05"]=("Bounded symbolic execution of the real FindPropAlongProtos/FindPropOwner, evalProp/_missing fallback, call dispatch, symbol indexing, bear/proto/which/keys built-ins and the native bro/ancestors/kindOf? through parsed programs: prototype forests of 2..3 objects whose shape (parent, bear vs bro, which of x/y/_missing each object defines and as what kind) is chosen by the solver; on every feasible shape z3 discharges agreement of o.name(args), o['name], which, proto, ancestors, kindOf? and keys with the forest model (first definer, else first _missing called with receiver+name+args, else NoPropErr).",
        TRUST,
        "SMT-decided bounded symbolic execution of go/ssa (z3); forest shapes enumerated by solver-decided choices")
CLAIMED["C09"]=("Bounded symbolic execution of the real evalObj / evalMap / NewInheritedMap / existsNonHashableKey / extractEmbeddedElems / findElemInMap / keyHashes and the keys, values, items, len, iteration accessors through parsed programs: object literals whose names are solver choices (duplicates, private names, ** unpacking) and map literals whose key kinds are solver choices with symbolic int / float / array payloads, so that the solver decides which keys collide; on every feasible path z3 discharges agreement with an ordered-dictionary reference (first occurrence wins, sorted public names, scalar-first insertion order, m[k]).",
        TRUST,
        "SMT-decided bounded symbolic execution of go/ssa (z3, bit-vectors; symbolic map keys compared by solver-decided equality)")
CLAIMED["C04"]=("Bounded symbolic execution of the real chain middlewares (list / strict / thoughtful / lonely / reduce, property-call and literal-call variants), evalPropCall / evalLiteralCall / evalVarCall and iterOf through parsed programs: arrays of 1..2 (thorough 1..3) elements whose payloads are symbolic so that the callee's value / nil / raise outcome at each position is decided by the solver; on every feasible path z3 discharges the documented per-element rule of each of 11 chain contexts and the pairwise agreement of the three call forms.",
        TRUST,
        "SMT-decided bounded symbolic execution of go/ssa (z3, bit-vectors); callee behaviour decided by symbolic data")
CLAIMED["C03"]=("Bounded symbolic execution of the real evalPanFuncCall / assignArgsToEnv / paddedArgs / evalArgs / evalKwargs / evalFuncMethodCall / extractAnonChainRecv / evalAssign and Env operations through parsed programs: (a) all 12 parameter signatures against every solver-chosen argument layout (count, * unpacking, keyword positions, ** unpacking) with a closed-form binding oracle including \\0, \\_, \\N, \\ and \\name; (b) 14 scoping scenarios with symbolic int inputs whose expected values are closed-form, plus the check that the enclosing scope is unchanged afterwards.",
        TRUST,
        "SMT-decided bounded symbolic execution of go/ssa (z3); argument layouts enumerated by solver-decided choices")
CLAIMED["C06"]=("Bounded symbolic execution of every built-in and native property reachable from the prototype chains of 10 live values (solver-chosen property name and argument), with a deep pointer-identity fingerprint of all live values compared after each operation, plus two-step sequences on arrays that share a receiver (first result fingerprinted, then a second array-building operation) with symbolic payloads; on every feasible path the fingerprints are discharged equal. Slice growth and spare capacity are those of the real runtime.",
        TRUST,
        "SMT-decided bounded symbolic execution of go/ssa (z3); operations enumerated by solver-decided choices, heap fingerprint oracle")
CLAIMED["C19"]=("Bounded symbolic execution of the real evaluator over the shared world as one inductive step: everything reachable from the constants environment is fingerprinted, a history program from a 14-program family runs in a fresh scope, and a solver-chosen later program must give the same value, error message and stack trace as before while the fingerprint stays equal; plus the real runscript.setup + runTest on solver-chosen pairs of test files (no variable leaks to the next file).",
        TRUST,
        "SMT-decided bounded symbolic execution of go/ssa (z3); inductive step over a fingerprint of shared state")
CLAIMED["C02"]=("Bounded symbolic execution of the real yyParse (generated LALR tables + grammar actions) with the operator tokens as solver choices: for all ordered pairs and triples of the 23 infix operators, all operand shapes, and 25 mixed templates (prefix, chains, calls, indexing, assignments, jump statements, if/else), z3 discharges on every feasible token sequence that the expression as written and the expression with the parentheses implied by the documented table print the same AST. Natively replayed paths go through the real regex lexer.",
        TRUST,
        "SMT-decided bounded symbolic execution of go/ssa (z3); token sequences enumerated by solver-decided choices")
CLAIMED["C16"]=("Bounded symbolic execution of the real simplexer Scan / Peek / peekBuf / readBufIfNeed / readBuf / consumeBuffer with the buffer length, the unread input length, the token length and every read count as solver variables (buffer content abstracted): one Scan step from an arbitrary state satisfying the buffer invariant returns the whole token and preserves the invariant, for a full reader and for arbitrary short reads, for greedy and delimited token classes. An inductive step: file size is unbounded; token length up to 6000 bytes, at most 4 reads per scan (quick).",
        TRUST+" Token types and the reader are contract stubs (evidence.assumptions).",
        "SMT-decided bounded symbolic execution of go/ssa (z3, bit-vectors; string lengths as terms)")
CLAIMED["C20"]=("Solver-decided lock / happens-before check extracted from the real code's go/ssa: every access to a package-level map (Lookup, MapUpdate, range, len, delete through a load of the global) and every sync.(RW)Mutex operation around it, with callees inlined; for every pair of conflicting accesses in every pair of entry functions z3 is asked for a two-thread schedule (timestamps, program order, RW-mutex exclusion) in which the accesses are adjacent. unsat for all pairs = no race on the interpreter-wide tables for any interleaving of two calls; a sat schedule is confirmed with a generated go test -race stress test before it is reported.",
        "Trusted: go/ssa construction; the extraction rules listed in evidence.assumptions (linear block order, package-level mutexes, static callees); z3. Races on state other than package-level maps are outside the claim.",
        "SMT schedule search (z3, integer timestamps) over lock/access events extracted from go/ssa")
NA={
}
DEFAULT_NA="check under construction in this session (engine exists; harness not yet registered)"
def chk(pid):
    text,note,tech=CLAIMED[pid]
    return {"property_id":pid,"quick_cmd":f"./check {pid} quick","thorough_cmd":f"./check {pid} thorough","evidence_file":f"evidence/{pid}.json","replay_cmd_template":"./check --replay {path}","engine":"gosym","level_claimed":{"category":"model_checking","text":text,"design_ref":"DESIGN.md 5."+str(int(pid[1:]))},"level_note":note,"technique":tech}
m={"version":1,
 "setup_cmd":"cd /verif/engine && GOFLAGS=-mod=mod GOPROXY=off GOSUMDB=off GOTOOLCHAIN=local go build -o bin/gosym ./cmd/gosym",
 "hooks":{"guard":"verif","enable":"no source hooks: harnesses are injected with go/packages Overlay (engine) and go test -overlay (native replay); nothing under /repo is built with a tag","baseline_off_cmd":"cd /repo && GOFLAGS=-mod=mod go test -vet=off -count=1 ./... ; cd /repo/web/wasm && GOFLAGS=-mod=mod go test -vet=off -count=1 ./...","source_commits":[],"add_only":True},
 "engines":[{"name":"gosym","path":"engine","serves_properties":sorted(CLAIMED),"kind_free_text":"bounded symbolic executor for go/ssa (fork of x/tools/go/ssa/interp with symbolic scalars, decision-prefix DFS, z3 over a pipe with one-shot z3 5.1/cvc5 fallback), harnesses injected by overlay, native replay of every counterexample"}],
 "checks":[chk(p) for p in sorted(CLAIMED)],
 "notes":"fix: commits in /repo are listed in known_findings.json (status fixed). See DESIGN.md.",
 "not_applicable":[{"property_id":p['id'],"reason":NA.get(p['id'],DEFAULT_NA)} for p in props if p['id'] not in CLAIMED]}
json.dump(m,open('/verif/MANIFEST.json','w'),indent=1)
print("claimed:",sorted(CLAIMED))
