#!/bin/bash
# runs every check of the manifest (quick by default) and prints one summary line each
cd "$(dirname "$0")/.."
tier="${1:-quick}"
for id in $(python3 -c "import json;print(' '.join(c['property_id'] for c in json.load(open('MANIFEST.json'))['checks']))"); do
  s=$(date +%s)
  out=$(./check $id $tier 2>&1); rc=$?
  e=$(( $(date +%s) - s ))
  echo "$id rc=$rc ${e}s $(echo "$out" | head -1 | cut -c1-150)"
  echo "$out" | grep -E "^(VIOLATION|CHECK-BROKEN|KNOWN-FINDING)" | cut -c1-200
done
