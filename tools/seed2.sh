#!/bin/bash
# seed2.sh <ID> [tier]: round-2: confirm build+tests in /tmp/wt2/<ID>, then try the check against the patch.
id="$1"; tier="${2:-quick}"
export WTROOT=/tmp/wt2
echo "== confirm $id"; /verif/tools/seed_confirm.sh $id
echo "== try $id"; /verif/tools/seed_try.sh /tmp/wt2/$id/MUTATION.diff $id $tier
