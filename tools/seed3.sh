#!/bin/bash
# seed3.sh <ID>...: round 3: per ID confirm build+tests and the demo in /tmp/wt3/<ID>, then run the check (snapshot) against the patch.
export WTROOT=/tmp/wt3
for id in "$@"; do
  { echo "== diff check"; cd $WTROOT/$id && git diff > /tmp/cur_$id.diff; diff -q <(grep -v '^index ' /tmp/cur_$id.diff) <(grep -v '^index ' MUTATION.diff) >/dev/null && echo same || echo "WORKTREE-DIFF-DIFFERS-FROM-MUTATION.diff"
    echo "== confirm $id"; /verif/tools/seed_confirm.sh $id
    echo "== demo $id"; /verif/tools/seed_demo.sh $id 2>&1 | cut -c1-200 | head -60
    echo "== try $id"; /verif/tools/st.sh $id seed; } > /tmp/seed3_$id.log 2>&1
  echo "$id: $(grep -m1 ' rc=' /tmp/seed3_$id.log)"
done
