#!/bin/bash
# seed4.sh <ID>...: round 4: per ID confirm build+tests and the demo in /tmp/wt5/<ID>, then run the FROZEN round-4 version of
# the check (/tmp/verif_r4, a git worktree of /verif at the end of round 3) against the patch: the honest first result.
export WTROOT=/tmp/wt5 VERIF_WORKERS=${VERIF_WORKERS:-8}
for id in "$@"; do
  { echo "== diff check"; cd $WTROOT/$id && git diff > /tmp/cur_$id.diff; diff -q <(grep -v '^index ' /tmp/cur_$id.diff) <(grep -v '^index ' MUTATION.diff) >/dev/null && echo same || echo "WORKTREE-DIFF-DIFFERS-FROM-MUTATION.diff"
    echo "== confirm $id"; /verif/tools/seed_confirm.sh $id
    echo "== demo $id"; /verif/tools/seed_demo.sh $id 2>&1 | cut -c1-200 | head -60
    echo "== try $id (round-4 version)"
    ( exec 9>/tmp/st.lock; flock 9
      if [ -n "$(git -C /repo status --porcelain)" ]; then echo "REPO-NOT-CLEAN"; exit 3; fi
      git -C /repo apply $WTROOT/$id/MUTATION.diff || { echo PATCH-DOES-NOT-APPLY; exit 3; }
      /tmp/verif_r4/check $id quick > /tmp/r4_$id.out 2>&1; rc=$?
      git -C /repo checkout -- . ; git -C /repo clean -fdq
      echo "$id r4-version rc=$rc"; grep -v WARNING /tmp/r4_$id.out | head -c 1500 | cut -c1-420 )
  } > /tmp/seed5_$id.log 2>&1
  echo "$id: $(grep -m1 'r4-version rc=' /tmp/seed5_$id.log)"
done
