#!/bin/bash
# seed_confirm.sh <ID>: in the sub-agent's worktree: build + full test suite with the change applied
id="$1"; wt=${WTROOT:-/tmp/wt}/$id
export GOFLAGS=-mod=mod GOPROXY=off GOSUMDB=off GOTOOLCHAIN=local
cd $wt || exit 3
git diff --stat -- . ':!*.txt' | tail -3
go build ./... || { echo BUILD-FAILS; exit 1; }
go test -vet=off -count=1 ./... 2>&1 | grep -v "no test files" | grep -E "^(ok|FAIL|---)" | head -12
