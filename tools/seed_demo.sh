#!/bin/bash
# seed_demo.sh <ID>: run the sub-agent's DEMO.pangaea with and without its change (in its worktree).
id="$1"; wt=${WTROOT:-/tmp/wt2}/$id
export GOFLAGS=-mod=mod GOPROXY=off GOSUMDB=off GOTOOLCHAIN=local
cd $wt || exit 3
[ -f DEMO.pangaea ] || { echo "no DEMO.pangaea"; ls; exit 0; }
go build -o /tmp/demo_with_$id . && echo "--- with change" && timeout 60 /tmp/demo_with_$id DEMO.pangaea 2>&1 | head -40
git diff > /tmp/demo_$id.patch && git apply -R /tmp/demo_$id.patch && go build -o /tmp/demo_without_$id . ; git apply /tmp/demo_$id.patch; rm -f /tmp/demo_$id.patch
echo "--- without change" && timeout 60 /tmp/demo_without_$id DEMO.pangaea 2>&1 | head -40
rm -f /tmp/demo_with_$id /tmp/demo_without_$id
