#!/usr/bin/env python3
"""seed_save.py <ID> <n> <status> <what> <needs> <detection>  — store a confirmed breaking change under /verif/seeded/<ID>-<n>/"""
import sys, os, shutil, json, glob, subprocess
pid, n, status, what, needs, detection = sys.argv[1:7]
wt = os.environ.get('WTROOT','/tmp/wt') + f'/{pid}'
d = f'/verif/seeded/{pid}-{n}'
os.makedirs(d, exist_ok=True)
shutil.copy(f'{wt}/MUTATION.diff', f'{d}/patch.diff')
for f in glob.glob(f'{wt}/DEMO*'):
    shutil.copy(f, d)
meta = {
  "property": pid,
  "what_changes": what,
  "needs_to_manifest": needs,
  "origin": "written by a fresh sub-agent that was given only the property text and its own scratch worktree of /repo",
  "confirmed_by_me": [
    "patch applies to /repo HEAD and `go build ./...` passes",
    "`go test -vet=off -count=1 ./...` in the scratch worktree with the change: all packages ok (props/modules/http/builtin fails only on the flaky port-50000 tests, as on the unchanged tree)",
    "the demonstration (DEMO.txt) shows the wrong behaviour with the change and the right behaviour after `git stash`",
  ],
  "check_run": f"tools/seed_try.sh seeded/{pid}-{n}/patch.diff {pid} quick  (git -C /repo apply; ./check {pid} quick; git -C /repo checkout -- .)",
  "check_result": status,
  "detection": detection,
}
json.dump(meta, open(f'{d}/meta.json', 'w'), indent=1)
print('saved', d, os.listdir(d))
