#!/bin/bash
# seed_try.sh <patch> <ID> [tier]  — apply a breaking change to /repo, run the check, undo it.
patch="$1"; id="$2"; tier="${3:-quick}"
cd /verif
if [ -n "$(git -C /repo status --porcelain)" ]; then echo "REPO-NOT-CLEAN"; exit 3; fi
git -C /repo apply "$patch" || { echo "PATCH-DOES-NOT-APPLY"; exit 3; }
( cd /repo && GOFLAGS=-mod=mod GOPROXY=off GOSUMDB=off GOTOOLCHAIN=local go build ./... ) || { git -C /repo checkout -- .; git -C /repo clean -fdq; echo "DOES-NOT-BUILD"; exit 3; }
./check "$id" "$tier" > /tmp/seed_try.out 2>&1; rc=$?
git -C /repo checkout -- . ; git -C /repo clean -fdq
echo "rc=$rc"; head -c 1500 /tmp/seed_try.out | cut -c1-400
exit $rc
