#!/bin/bash
# seedregress.sh [ids...]: re-run the current quick checks against EVERY saved seeded change (or the given seed dirs) and
# record the outcome in seeded/REGRESSION.txt (one line per seed: rc and the first VIOLATION line). Runs from one snapshot.
cd "$(dirname "$0")/.."
snap=/tmp/vreg; rm -rf $snap; mkdir -p $snap; rsync -a --exclude .git --exclude replays --exclude evidence /verif/ $snap/
seeds="$@"; [ -z "$seeds" ] && seeds=$(ls -d seeded/C*-* | xargs -n1 basename)
out=seeded/REGRESSION.txt; : > $out.tmp
echo "# quick checks of /verif $(git rev-parse --short HEAD) against every seeded change applied to /repo $(git -C /repo rev-parse --short HEAD); rc=1 = detected" >> $out.tmp
for s in $seeds; do
  id=${s%-*}
  ( exec 9>/tmp/st.lock; flock 9
    if [ -n "$(git -C /repo status --porcelain)" ]; then echo "$s REPO-NOT-CLEAN"; exit 3; fi
    git -C /repo apply /verif/seeded/$s/patch.diff || { echo "$s PATCH-DOES-NOT-APPLY"; exit 3; }
    $snap/check $id quick > /tmp/reg_$s.out 2>&1; rc=$?
    git -C /repo checkout -- . ; git -C /repo clean -fdq
    echo "$s rc=$rc $(grep -m1 VIOLATION /tmp/reg_$s.out | sed 's/replay=[^ ]* //' | cut -c1-200)$(grep -m1 CHECK-BROKEN /tmp/reg_$s.out | cut -c1-200)" ) | tee -a $out.tmp
done
mv $out.tmp $out
