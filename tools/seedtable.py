#!/usr/bin/env python3
"""Rewrites the seeded-change table of DESIGN.md section 9 from /verif/seeded/*/meta.json."""
import json, glob, re
rows=[]
for d in sorted(glob.glob('/verif/seeded/*/meta.json')):
    m=json.load(open(d)); name=d.split('/')[-2]
    rows.append(f"| {name} | {m['what_changes']} (needs: {m['needs_to_manifest']}) | {m['check_result']}: {m['detection']} |")
s=open('/verif/DESIGN.md').read()
a=s.index('| seed | change (needs …) | result of `./check <ID> quick` |\n|---|---|---|\n')+len('| seed | change (needs …) | result of `./check <ID> quick` |\n|---|---|---|\n')
b=s.index('\nLessons taken from the misses')
s=s[:a]+'\n'.join(rows)+'\n'+s[b:]
open('/verif/DESIGN.md','w').write(s)
print(len(rows),'rows')
