#!/bin/bash
# st.sh <ID> clean|seed|<patch> [tier]: run ./check from a snapshot of /verif (so /verif can be edited meanwhile),
# on the clean /repo or with a seeded patch applied (default patch for "seed": /tmp/wt2/<ID>/MUTATION.diff). Serialised by a lock.
id="$1"; mode="$2"; tier="${3:-quick}"
exec 9>/tmp/st.lock; flock 9
snap=/tmp/vrun; rm -rf $snap; mkdir -p $snap
rsync -a --exclude .git --exclude replays --exclude evidence /verif/ $snap/
if [ -n "$(git -C /repo status --porcelain)" ]; then echo "REPO-NOT-CLEAN"; exit 3; fi
patch=""
case "$mode" in clean) ;; seed) patch=${WTROOT:-/tmp/wt2}/$id/MUTATION.diff;; *) patch="$mode";; esac
if [ -n "$patch" ]; then git -C /repo apply "$patch" || { echo PATCH-DOES-NOT-APPLY; exit 3; }; fi
$snap/check "$id" "$tier" > /tmp/st_${id}_$(basename "$mode" .diff).out 2>&1; rc=$?
git -C /repo checkout -- . ; git -C /repo clean -fdq
echo "$id $mode rc=$rc"; grep -v WARNING /tmp/st_${id}_$(basename "$mode" .diff).out | head -c 1800 | cut -c1-420
exit $rc
