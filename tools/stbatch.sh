#!/bin/bash
# stbatch.sh <snapdir> <ID>...: snapshot /verif once into <snapdir>, then for each ID run the check on the clean /repo and
# with /tmp/wt2/<ID>/MUTATION.diff applied (serialised with st.sh by the same lock).
snap="$1"; shift
rm -rf $snap; mkdir -p $snap; rsync -a --exclude .git --exclude replays --exclude evidence /verif/ $snap/
for id in "$@"; do
  for mode in clean seed; do
    ( exec 9>/tmp/st.lock; flock 9
      if [ -n "$(git -C /repo status --porcelain)" ]; then echo "REPO-NOT-CLEAN"; exit 3; fi
      if [ $mode = seed ]; then git -C /repo apply ${WTROOT:-/tmp/wt2}/$id/MUTATION.diff || { echo PATCH-DOES-NOT-APPLY; exit 3; }; fi
      $snap/check $id quick > /tmp/st_${id}_$mode.out 2>&1; rc=$?
      git -C /repo checkout -- . ; git -C /repo clean -fdq
      echo "$id $mode rc=$rc" )
  done
done
