#!/bin/bash
# background thorough run on snapshots of /verif and /repo (vp run --with-repo): results are NOT evidence
set -u
cd "$(dirname "$0")/.."
repo="${VP_RUN_REPO:-/repo}"
export VERIF_REPO="$repo" VERIF_WORKERS="${VERIF_WORKERS:-6}"
sed -i "s|=> /repo|=> $repo|g" engine/go.mod
for id in "$@"; do
  s=$(date +%s)
  out=$(./check $id thorough 2>&1); rc=$?
  echo "$id rc=$rc $(( $(date +%s) - s ))s $(echo "$out" | head -1 | cut -c1-260)"
  echo "$out" | grep -E "^(VIOLATION|CHECK-BROKEN|KNOWN-FINDING)" | cut -c1-300 | head -10
done
